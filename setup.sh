#!/bin/sh
# Builds the verifier offline from files on disk.
set -e
cd "$(dirname "$0")"
unset GOSUMDB
export GOTOOLCHAIN=auto GOFLAGS=-mod=mod GOPROXY=off
mkdir -p bin evidence
cp /repo/go.sum govc/go.sum
(cd govc && go build -o ../bin/govc ./cmd/govc)
echo "setup ok"
