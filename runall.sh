#!/bin/sh
# Runs every claimed check's quick command on the current tree, then validates MANIFEST and evidence.
cd "$(dirname "$0")"
[ -z "$(git -C /repo status --porcelain)" ] || echo "WARNING: /repo has uncommitted changes"
rc=0
for p in $(python3 -c "import json;print(' '.join(c['property_id'] for c in json.load(open('MANIFEST.json'))['checks']))"); do
  out=$(./check $p ${1:-quick} 2>&1); code=$?
  echo "$out" | grep "VIOLATION\|KNOWN-FINDING\|govc: property\|broken" | cut -c1-220
  [ $code -ne 0 ] && { echo "  -> $p exit $code"; rc=1; }
done
python3-vt validate.py || rc=1
[ $rc -eq 0 ] && echo "RUNALL: all claimed checks pass, manifest and evidence valid" || echo "RUNALL: FAILED (do not commit evidence from this run)"
exit $rc
