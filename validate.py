#!/usr/bin/env python3-vt
import json,jsonschema,sys,glob
jsonschema.validate(json.load(open('/verif/MANIFEST.json')),json.load(open('/root/.vp/MANIFEST.schema.json')))
for f in glob.glob('/verif/evidence/*.json'):
    jsonschema.validate(json.load(open(f)),json.load(open('/root/.vp/EVIDENCE.schema.json')))
print('valid')
