#!/bin/bash
# Must-fail corpus: every property-breaking change kept under /verif/seeded/<name>/ (patch.diff + meta.json) and
# /verif/selftest/<Cxx>__<name>.diff is applied to a scratch worktree of /repo's HEAD, the property's check is run
# against that worktree (evidence and replays go to the scratch directory, never to /verif/evidence), and the check
# must report a VIOLATION. Run after every engine or contract change. Nothing is written to /repo.
#   usage: ./selftest.sh [-j N] [name-pattern]      exit 0 iff every change expected to be detected is detected
cd "$(dirname "$0")"
unset GOSUMDB
export GOTOOLCHAIN=auto GOFLAGS=-mod=mod GOPROXY=off
J=3
[ "$1" = "-j" ] && { J=$2; shift 2; }
PAT=${1:-}
REPO=${VERIF_REPO:-/repo}
[ -x bin/govc ] || ./setup.sh >/dev/null || exit 2
S=${VERIF_SCRATCH:-/var/tmp}/selftest.$$
mkdir -p $S
trap 'for d in $S/wt.*; do [ -d "$d" ] && git -C $REPO worktree remove --force $d 2>/dev/null; done; rm -rf $S; git -C $REPO worktree prune' EXIT

list() {
  for d in seeded/*/; do
    n=$(basename $d)
    [ -f $d/patch.diff ] && [ -f $d/meta.json ] || continue
    p=$(python3 -c "import json,sys;m=json.load(open('$d/meta.json'));print(m['property'], m.get('expect','detected'))")
    echo "$n $p $d/patch.diff"
  done
  for f in selftest/*.diff; do
    [ -f "$f" ] || continue
    n=$(basename $f .diff); p=${n%%__*}
    echo "$n $p detected $f"
  done
}

one() {
  n=$1; p=$2; exp=$3; patch=$4
  wt=$S/wt.$n
  git -C $REPO worktree add -q --detach $wt HEAD 2>/dev/null || { echo "$n $p SETUP-FAILED"; return; }
  if ! git -C $wt apply $(pwd)/$patch 2>$S/$n.apply; then echo "$n $p PATCH-DOES-NOT-APPLY"; git -C $REPO worktree remove --force $wt; return; fi
  ${GOVC_BIN:-bin/govc} check -property $p -tier quick -repo $wt -verif "$(pwd)" -out $S/out.$n > $S/$n.log 2>&1
  rc=$?
  v=$(grep -c '^VIOLATION' $S/$n.log)
  first=$(grep -m1 '^VIOLATION' $S/$n.log | sed 's/.*replays\/[^/]*\///; s/\.json.*//')
  if [ $rc -eq 1 ] && [ $v -gt 0 ]; then r=detected; elif [ $rc -eq 0 ]; then r=missed; else r="broken(rc=$rc)"; fi
  echo "$n $p expect=$exp result=$r violations=$v first=$first"
  git -C $REPO worktree remove --force $wt
  rm -rf $S/out.$n
}
export -f one; export S REPO

list | grep -e "$PAT" > $S/list
cat $S/list | xargs -P $J -L 1 bash -c 'one "$@"' _ | tee $S/results
bad=$(grep -c 'expect=detected result=\(missed\|broken\)\|SETUP-FAILED\|PATCH-DOES-NOT-APPLY' $S/results)
tot=$(wc -l < $S/results)
echo "selftest: $tot changes, $bad not detected although expected"
[ "$bad" -eq 0 ]
