#!/bin/bash
# Must-pass corpus: behaviour-preserving refactorings (/verif/benign/<Cxx>__<name>.diff, produced by independent
# sub-agents that were asked NOT to break the property) are applied to scratch worktrees; the property's check must
# stay quiet (exit 0, no VIOLATION). usage: ./benigntest.sh [-j N] [pattern]
cd "$(dirname "$0")"
unset GOSUMDB
export GOTOOLCHAIN=auto GOFLAGS=-mod=mod GOPROXY=off GOVC_NOREPLAY=1
J=3; [ "$1" = "-j" ] && { J=$2; shift 2; }
PAT=${1:-}
REPO=${VERIF_REPO:-/repo}
S=${VERIF_SCRATCH:-/var/tmp}/benign.$$; mkdir -p $S
trap 'for d in $S/wt.*; do [ -d "$d" ] && git -C $REPO worktree remove --force $d 2>/dev/null; done; rm -rf $S; git -C $REPO worktree prune' EXIT
one() { f=$1; n=$(basename $f .diff); p=${n%%__*}; wt=$S/wt.$n
  git -C $REPO worktree add -q --detach $wt HEAD 2>/dev/null || { echo "$n SETUP-FAILED"; return; }
  if ! git -C $wt apply $(pwd)/$f 2>/dev/null; then echo "$n $p PATCH-DOES-NOT-APPLY"; git -C $REPO worktree remove --force $wt; return; fi
  ${GOVC_BIN:-bin/govc} check -property $p -tier quick -repo $wt -verif "$(pwd)" -out $S/out.$n > $S/$n.log 2>&1; rc=$?
  v=$(grep -c '^VIOLATION' $S/$n.log); first=$(grep -m1 '^VIOLATION' $S/$n.log | sed 's/.*replays\/[^/]*\///; s/\.json.*//')
  if [ $rc -eq 0 ]; then r=quiet; else r="ALARM(rc=$rc)"; fi
  echo "$n $p result=$r violations=$v first=$first"
  git -C $REPO worktree remove --force $wt; rm -rf $S/out.$n; }
export -f one; export S REPO
ls benign/*.diff | grep -e "$PAT" | xargs -P $J -L 1 bash -c 'one "$@"' _ | sort | tee $S/results
bad=$(grep -c 'ALARM\|SETUP-FAILED' $S/results); tot=$(wc -l < $S/results)
echo "benigntest: $tot refactorings, $bad alarms"
[ "$bad" -eq 0 ]
