package govc

import (
	"fmt"
	"os"
	"go/token"
	"go/types"
	"strings"

	"golang.org/x/tools/go/ssa"
)

// EncodeFunction generates the verification conditions of fn against its contract, for property prop.
func (w *World) EncodeFunction(fn *ssa.Function, con *FuncContract, prop string) *FnEnc {
	// dry run to discover heap variables, then the real run with all of them pre-registered
	dry := w.newEnc(fn, con, prop)
	dry.dry = true
	dry.run()
	e := w.newEnc(fn, con, prop)
	for k, v := range dry.heapVars {
		e.heapVars[k] = v
	}
	e.run()
	return e
}

func (w *World) newEnc(fn *ssa.Function, con *FuncContract, prop string) *FnEnc {
	return &FnEnc{W: w, fn: fn, con: con, prop: prop,
		vals: map[ssa.Value]Val{}, guard: map[*ssa.BasicBlock]string{}, exit: map[*ssa.BasicBlock]State{}, entry: map[*ssa.BasicBlock]State{},
		edge: map[[2]int]string{}, heapVars: map[string]HeapVar{}, rangeVis: map[ssa.Value]HeapVar{}, rangeMap: map[ssa.Value]Val{},
		returnEnsuresBound: map[int]int{}, debugNames: map[string][]debugBinding{}, lets: map[string]Val{}, calleeUsed: map[string]bool{}, modRefsFn: map[string][]modT{}}
}

func (e *FnEnc) run() {
	fn := e.fn
	if len(fn.Blocks) == 0 {
		e.errs = append(e.errs, "function has no body")
		return
	}
	e.computeLoops()
	e.bagInit()
	e.initState = State{}
	e.heapVars[AllocVar.Name] = AllocVar
	for _, name := range sortedKeys(e.heapVars) {
		hv := e.heapVars[name]
		e.emit(fmt.Sprintf("(declare-fun %s@0 () %s)", name, hv.Sort))
		e.initState[name] = name + "@0"
	}
	e.emit("(assert (>= alloc@0 0))")
	for _, name := range sortedKeys(e.heapVars) {
		if strings.HasPrefix(name, "MD.") {
			ks, _ := splitArraySort(strings.TrimSuffix(strings.TrimPrefix(e.heapVars[name].Sort, "(Array Int "), ")"))
			e.emit(fmt.Sprintf("(assert (forall ((k!n %s)) (not (select (select %s@0 0) k!n))))", ks, name))
		}
		if name == MapLen.Name {
			e.emit("(assert (= (select ML@0 0) 0))")
		}
	}
	e.cur = copyState(e.initState)
	e.curGuard = "true"
	// parameters and free variables
	for _, p := range fn.Params {
		n := "p." + mangle(p.Name())
		e.emit(fmt.Sprintf("(declare-fun %s () %s)", n, e.sorts().SortOf(p.Type())))
		v := Val{T: n, Ty: p.Type()}
		e.vals[p] = v
		e.assumeValid(v)
	}
	for _, p := range fn.FreeVars {
		n := "fv." + mangle(p.Name())
		e.emit(fmt.Sprintf("(declare-fun %s () %s)", n, e.sorts().SortOf(p.Type())))
		v := Val{T: n, Ty: p.Type()}
		e.vals[p] = v
		e.assumeValid(v)
		e.assume(not(sx("=", n, "0")))
	}
	// owned parameters: the object is reachable only through the parameter (callers pass a non-escaping local or an
	// owned parameter of their own - checked where they are encoded), so it is treated like a local object: unknown
	// calls cannot touch it. Here: the parameter must not escape.
	if e.con != nil {
		for _, o := range e.con.Owned {
			found := false
			for _, p := range fn.Params {
				if p.Name() != o {
					continue
				}
				found = true
				if e.valueEscapes(p) {
					e.oblige(&Obligation{Name: "owned." + o + ".escapes", Kind: "protocol", Clause: "owned parameter " + o + " is not stored, captured, returned or passed to a function that does not declare it owned", Guard: "true", Goal: "false"})
					continue
				}
				v := e.vals[p]
				switch t := p.Type().Underlying().(type) {
				case *types.Pointer:
					e.locals = append(e.locals, localRef{e.sorts().CellHeap(t.Elem()).Name, v.T, nil, t.Elem()})
				case *types.Map:
					s := e.sorts()
					e.locals = append(e.locals, localRef{s.MapDom(t.Key()).Name, v.T, nil, nil}, localRef{s.MapVal(t.Key(), t.Elem()).Name, v.T, nil, nil}, localRef{MapLen.Name, v.T, nil, nil})
				}
			}
			if !found {
				e.bindFail("owned "+o, "no such parameter")
			}
		}
	}
	// stateless: no package-level state is written below this function
	if e.con != nil && e.con.Stateless != nil && clauseActive(e.con.Stateless.Clause, e.prop) {
		gw := e.W.globalWrites(fn)
		e.oblige(&Obligation{Name: "stateless.checked", Kind: "protocol", Clause: "package-level state written below this function is limited to the declared exceptions", Tags: e.con.Stateless.Tags, Guard: "true", Goal: "true"})
		for _, g := range sortedKeys(gw) {
			if e.con.Stateless.Except[g] {
				continue
			}
			e.oblige(&Obligation{Name: "stateless." + g, Kind: "protocol", Clause: "package-level variable " + g + " is written or mutated (" + gw[g] + "): the result may depend on what ran before", Tags: e.con.Stateless.Tags, Guard: "true", Goal: "false"})
		}
	}
	if fn.Signature.Recv() != nil && len(fn.Params) > 0 {
		if _, ok := fn.Params[0].Type().Underlying().(*types.Pointer); ok {
			// a method is called on a non-nil receiver in every execution that reaches its body's field accesses
		}
	}
	e.ghosts = map[string]HeapVar{}
	if e.con != nil {
		for _, g := range e.con.Ghosts {
			srt := e.W.ghostSort(g.Type, e.fn)
			if srt == "" {
				e.bindFail("ghost "+g.Name, "unknown ghost type "+g.Type)
				continue
			}
			hv := HeapVar{"GH." + mangle(g.Name), srt}
			e.ghosts[g.Name] = hv
			if _, ok := e.heapVars[hv.Name]; !ok {
				e.heapVars[hv.Name] = hv
				e.emit(fmt.Sprintf("(declare-fun %s@0 () %s)", hv.Name, hv.Sort))
				e.initState[hv.Name] = hv.Name + "@0"
				e.cur[hv.Name] = hv.Name + "@0"
			}
		}
	}
	e.W.globalFacts(e)
	// lets and requires
	if e.con != nil {
		env := e.specEnv(e.cur, e.initState, nil)
		for _, l := range e.con.Lets {
			x, err := ParseExpr(l.Type)
			if err != nil {
				e.bindFail("let "+l.Name, err.Error())
				continue
			}
			v, err := env.EvalVal(x)
			if err != nil {
				e.bindFail("let "+l.Name, err.Error())
				continue
			}
			if v.T != "" && v.Loc == nil {
				v.T = e.define("let."+mangle(l.Name), env.sortOf(v), v.T)
			}
			e.lets[l.Name] = v
		}
		for _, in := range e.con.Inits {
			hv, ok := e.ghosts[in.Name]
			if !ok {
				e.bindFail("init "+in.Name, "no such ghost variable")
				continue
			}
			v, err := env.EvalVal(in.Expr)
			if err != nil {
				e.bindFail("init "+in.Name, err.Error())
				continue
			}
			e.setHeap(hv, v.T)
		}
		for i, c := range e.con.Requires {
			if !clauseActive(c, e.prop) {
				continue
			}
			t, err := env.EvalBool(c.Expr)
			if err != nil {
				e.bindFail(fmt.Sprintf("requires#%d", i+1), err.Error())
				continue
			}
			e.emit(fmt.Sprintf("(assert %s)", t))
		}
		// modifies clauses: declared pre-existing locations this function may change
		for _, c := range e.con.Modifies {
			e.addModRef(env, c, e.modRefsFn)
		}
	}
	// ghost initialisations are part of the entry state
	for k, v := range e.cur {
		if strings.HasPrefix(k, "GH.") {
			e.initState[k] = v
		}
	}
	// vacuity: the preconditions must be satisfiable
	e.oblige(&Obligation{Name: "cover.requires", Kind: "cover", Clause: "requires satisfiable", Guard: "true", Goal: "false"})

	order := e.rpo()
	for _, b := range order {
		e.block(b)
	}
	if e.con != nil {
		for k, c := range e.con.ReturnEnsures {
			if clauseActive(c, e.prop) && e.returnEnsuresBound[k] == 0 {
				e.bindFail(fmt.Sprintf("return-ensures%d", k+1), "the clause is in scope at no return: "+c.Src)
			}
		}
	}
}

func (e *FnEnc) bindFail(what, msg string) {
	e.oblige(&Obligation{Name: "bind." + what, Kind: "bind", Clause: msg, Guard: "true", Goal: "false"})
}

// addModRef evaluates a modifies clause into (heap, ref) pairs.
func (e *FnEnc) addModRef(env *Env, c Clause, into map[string][]modT) {
	v, err := env.EvalVal(c.Expr)
	if err != nil {
		e.bindFail("modifies", err.Error()+" in "+c.Src)
		return
	}
	s := e.sorts()
	add := func(h HeapVar, ref string) {
		if _, ok := e.heapVars[h.Name]; !ok {
			e.heapVars[h.Name] = h
		}
		into[h.Name] = append(into[h.Name], modT{ref: ref})
	}
	if v.Loc != nil {
		if _, ok := e.heapVars[v.Loc.Heap.Name]; !ok {
			e.heapVars[v.Loc.Heap.Name] = v.Loc.Heap
		}
		t := modT{ref: v.Loc.Ref}
		if v.Loc.Elem {
			t.idx = v.Loc.Idx
		} else if len(v.Loc.Path) >= 1 && v.Loc.Path[0].Field >= 0 {
			if _, ok := v.Loc.RootTy.Underlying().(*types.Struct); ok {
				t.field = v.Loc.Path[0].Field
				t.fieldTy = v.Loc.RootTy
			}
		}
		into[v.Loc.Heap.Name] = append(into[v.Loc.Heap.Name], t)
		return
	}
	switch u := v.Ty.Underlying().(type) {
	case *types.Pointer:
		add(s.CellHeap(u.Elem()), v.T)
	case *types.Map:
		add(s.MapDom(u.Key()), v.T)
		add(s.MapVal(u.Key(), u.Elem()), v.T)
		add(MapLen, v.T)
	case *types.Slice:
		add(s.ArrHeap(u.Elem()), sx("sref", v.T))
	default:
		e.bindFail("modifies", "not a location: "+c.Src)
	}
}

func (e *FnEnc) block(b *ssa.BasicBlock) {
	e.curBlock = b
	var fwd []*ssa.BasicBlock
	seen := map[*ssa.BasicBlock]bool{}
	for _, p := range b.Preds {
		if !isBackEdge(p, b) && !seen[p] {
			if _, done := e.exit[p]; done {
				fwd = append(fwd, p)
				seen[p] = true
			}
		}
	}
	// guard
	if b.Index == 0 {
		e.guard[b] = "true"
		if e.parent != nil {
			e.guard[b] = e.entryGuard
		}
	} else {
		var gs []string
		for _, p := range fwd {
			gs = append(gs, e.edgeGuard(p, b))
		}
		e.guard[b] = e.define(fmt.Sprintf("g.b%d", b.Index), "Bool", or(gs...))
	}
	e.curGuard = e.guard[b]
	e.cur = e.mergeStates(fwd, b)
	li := e.loops[b]
	// phis
	phiIn := func(phi *ssa.Phi, preds []*ssa.BasicBlock) string {
		var t string
		for k := len(preds) - 1; k >= 0; k-- {
			p := preds[k]
			var inc ssa.Value
			for j, q := range b.Preds {
				if q == p {
					inc = phi.Edges[j]
					break
				}
			}
			iv := e.val(inc)
			if iv.T == "" {
				e.abstract("derived address flows into phi")
				iv.T = e.declare("esc", e.sorts().SortOf(phi.Type()))
			}
			if t == "" {
				t = iv.T
			} else {
				t = ite(e.edgeGuard(p, b), iv.T, t)
			}
		}
		return t
	}
	var phis []*ssa.Phi
	for _, in := range b.Instrs {
		if p, ok := in.(*ssa.Phi); ok {
			phis = append(phis, p)
		} else {
			break
		}
	}
	if li == nil {
		for _, p := range phis {
			if len(fwd) == 0 {
				e.havocVal(p)
				continue
			}
			e.setVal(p, phiIn(p, fwd))
		}
	} else {
		e.loopHeader(b, li, fwd, phis, phiIn)
	}
	e.entry[b] = copyState(e.cur)
	e.bagEnter(b)
	for _, p := range phis {
		e.bagInstr(p)
	}
	for k, in := range b.Instrs {
		e.curIdx = k
		switch t := in.(type) {
		case *ssa.Phi:
		case *ssa.If:
			c := e.val(t.Cond)
			if b.Succs[0] == b.Succs[1] {
				e.edge[[2]int{b.Index, b.Succs[0].Index}] = e.curGuard
			} else {
				e.edge[[2]int{b.Index, b.Succs[0].Index}] = e.define(fmt.Sprintf("e.b%d.b%d", b.Index, b.Succs[0].Index), "Bool", and(e.curGuard, c.T))
				e.edge[[2]int{b.Index, b.Succs[1].Index}] = e.define(fmt.Sprintf("e.b%d.b%d", b.Index, b.Succs[1].Index), "Bool", and(e.curGuard, not(c.T)))
			}
		case *ssa.Jump:
			e.edge[[2]int{b.Index, b.Succs[0].Index}] = e.curGuard
		case *ssa.Return:
			e.ret(t)
			e.bagInstr(t)
		case *ssa.Panic:
			if e.con != nil && e.con.Safe {
				e.oblige(&Obligation{Name: "safe.panic@" + e.posOf(t), Kind: "safe", Clause: "explicit panic unreachable", Guard: e.curGuard, Goal: "false", Pos: e.posOf(t)})
			}
		default:
			e.instr(in)
			e.bagInstr(in)
		}
	}
	e.exit[b] = copyState(e.cur)
	// "complete" loops: an edge that leaves the loop from anywhere but its header is an early exit
	if e.con != nil {
		for _, li := range e.loopList {
			lc := e.con.Loops[li.ordinal]
			if lc == nil || lc.Complete == nil || !clauseActive(*lc.Complete, e.prop) || !li.blocks[b] || b == li.header {
				continue
			}
			for _, sc := range b.Succs {
				if !li.blocks[sc] {
					e.oblige(&Obligation{Name: fmt.Sprintf("loop%d.complete@b%d.b%d", li.ordinal, b.Index, sc.Index), Kind: "protocol", Clause: lc.Complete.Src, Tags: lc.Complete.Tags,
						Guard: e.edgeGuard(b, sc), Goal: "false"})
				}
			}
			if _, isRet := b.Instrs[len(b.Instrs)-1].(*ssa.Return); isRet {
				e.oblige(&Obligation{Name: fmt.Sprintf("loop%d.complete@b%d.return", li.ordinal, b.Index), Kind: "protocol", Clause: lc.Complete.Src, Tags: lc.Complete.Tags, Guard: e.curGuard, Goal: "false"})
			}
		}
	}
	// back edges leaving this block
	for _, s := range b.Succs {
		if isBackEdge(b, s) {
			if l := e.loops[s]; l != nil {
				e.backEdge(b, l)
			}
		}
	}
}

func (e *FnEnc) loopModSet(li *loopInfo) map[string]bool {
	mod := map[string]bool{}
	s := e.sorts()
	all := false
	for _, b := range e.fn.Blocks {
		if !li.blocks[b] {
			continue
		}
		for _, in := range b.Instrs {
			switch i := in.(type) {
			case *ssa.Store:
				if l := e.staticHeapOf(i.Addr); l != "" {
					mod[l] = true
				} else {
					all = true
				}
			case *ssa.Alloc:
				mod[s.CellHeap(i.Type().Underlying().(*types.Pointer).Elem()).Name] = true
				mod[AllocVar.Name] = true
			case *ssa.MakeSlice:
				mod[s.ArrHeap(i.Type().Underlying().(*types.Slice).Elem()).Name] = true
				mod[AllocVar.Name] = true
			case *ssa.Slice:
				if st, ok := i.Type().Underlying().(*types.Slice); ok {
					mod[s.ArrHeap(st.Elem()).Name] = true
					mod[AllocVar.Name] = true
				}
			case *ssa.Convert:
				if st, ok := i.Type().Underlying().(*types.Slice); ok {
					mod[s.ArrHeap(st.Elem()).Name] = true
					mod[AllocVar.Name] = true
				}
			case *ssa.MakeMap:
				mt := i.Type().Underlying().(*types.Map)
				mod[s.MapDom(mt.Key()).Name] = true
				mod[MapLen.Name] = true
				mod[AllocVar.Name] = true
			case *ssa.MapUpdate:
				mt := i.Map.Type().Underlying().(*types.Map)
				mod[s.MapDom(mt.Key()).Name] = true
				mod[s.MapVal(mt.Key(), mt.Elem()).Name] = true
				mod[MapLen.Name] = true
			case *ssa.MakeClosure, *ssa.MakeInterface:
				mod[AllocVar.Name] = true
			case *ssa.Range:
				mod["VIS."+mangle(i.Name())] = true
				mod["POS."+mangle(i.Name())] = true
			case *ssa.Next:
				mod["VIS."+mangle(i.Iter.Name())] = true
				mod["POS."+mangle(i.Iter.Name())] = true
			case ssa.CallInstruction:
				c := i.Common()
				if bi, ok := c.Value.(*ssa.Builtin); ok {
					switch bi.Name() {
					case "append":
						if st, ok := c.Args[0].Type().Underlying().(*types.Slice); ok {
							mod[s.ArrHeap(st.Elem()).Name] = true
						}
						mod[AllocVar.Name] = true
					case "delete":
						mt := c.Args[0].Type().Underlying().(*types.Map)
						mod[s.MapDom(mt.Key()).Name] = true
						mod[MapLen.Name] = true
					case "copy", "clear":
						all = true
					}
					continue
				}
				if c.IsInvoke() {
					key := "invoke:" + types.TypeString(c.Value.Type(), nil) + "." + c.Method.Name()
					if e.W.NoHeapEffect(key) {
						continue
					}
				}
				if f := c.StaticCallee(); f != nil {
					name := calleeName(f)
					if _, ok := libModels[name]; ok {
						continue
					}
					switch name {
					case "fmt.Errorf", "fmt.Sprintf", "path/filepath.Join":
						mod[AllocVar.Name] = true
						continue
					case "sort.Strings":
						mod[s.ArrHeap(types.Typ[types.String]).Name] = true
						continue
					case "sort.Slice", "sort.SliceStable":
						if mi, ok := c.Args[0].(*ssa.MakeInterface); ok {
							if st, ok := mi.X.Type().Underlying().(*types.Slice); ok {
								mod[s.ArrHeap(st.Elem()).Name] = true
								continue
							}
						}
					}
					if e.W.IsPure(name) || e.W.NoHeapEffect(name) {
						continue
					}
					if con := e.W.ContractFor(f); con != nil && !con.NoFrame {
						// declared modifies only (+ allocation)
						mod[AllocVar.Name] = true
						for _, hn := range e.W.contractModHeaps(e, con, f) {
							mod[hn] = true
						}
						continue
					}
					if inModule(f) {
						// no provable frame: the inferred write set
						if eff := e.W.EffectsOf(f); !eff.All {
							mod[AllocVar.Name] = true
							for hn := range eff.Existing {
								mod[hn] = true
							}
							for hn := range eff.Alloc {
								mod[hn] = true
							}
							continue
						}
					}
				}
				all = true
			case *ssa.Go, *ssa.Send, *ssa.Select, *ssa.Defer, *ssa.RunDefers:
				all = true
			case *ssa.UnOp:
				if i.Op.String() == "<-" {
					all = true
				}
			}
		}
	}
	if e.con != nil {
		for _, b := range e.fn.Blocks {
			if !li.blocks[b] {
				continue
			}
			for _, in := range b.Instrs {
				ci, ok := in.(ssa.CallInstruction)
				if !ok {
					continue
				}
				names := callNames(ci.Common())
				for _, u := range e.con.CallUpdates {
					if names[u.Callee] {
						if hv, ok := e.ghosts[u.Name]; ok {
							mod[hv.Name] = true
						}
					}
				}
			}
		}
		if lc := e.con.Loops[li.ordinal]; lc != nil {
			for _, u := range lc.Updates {
				if hv, ok := e.ghosts[u.Name]; ok {
					mod[hv.Name] = true
				}
			}
		}
		// ghost variables updated by inner loops
		for _, inner := range e.loopList {
			if inner != li && li.blocks[inner.header] {
				if lc := e.con.Loops[inner.ordinal]; lc != nil {
					for _, u := range lc.Updates {
						if hv, ok := e.ghosts[u.Name]; ok {
							mod[hv.Name] = true
						}
					}
				}
			}
		}
	}
	if all {
		for name := range e.heapVars {
			if !strings.HasPrefix(name, "VIS.") && !strings.HasPrefix(name, "POS.") && !strings.HasPrefix(name, "GH.") {
				// objects owned by go/ssa, go/types, ... are not mutated by unknown computations (assumption A-imm,
				// the same rule as at a single unknown call); explicit stores in the loop are still targets
				if immutableHeap(name) && !mod[name] {
					continue
				}
				mod[name] = true
			}
		}
		mod["*"] = true // the loop contains an unknown computation: no frame is claimed for it
	}
	return mod
}

// staticHeapOf returns the heap variable a store through addr writes, from types alone.
func (e *FnEnc) staticHeapOf(addr ssa.Value) string {
	s := e.sorts()
	for {
		switch a := addr.(type) {
		case *ssa.FieldAddr:
			addr = a.X
			continue
		case *ssa.IndexAddr:
			if st, ok := a.X.Type().Underlying().(*types.Slice); ok {
				return s.ArrHeap(st.Elem()).Name
			}
			addr = a.X
			continue
		}
		break
	}
	if pt, ok := addr.Type().Underlying().(*types.Pointer); ok {
		return s.CellHeap(pt.Elem()).Name
	}
	return ""
}

func (e *FnEnc) loopHeader(b *ssa.BasicBlock, li *loopInfo, fwd []*ssa.BasicBlock, phis []*ssa.Phi, phiIn func(*ssa.Phi, []*ssa.BasicBlock) string) {
	pre := copyState(e.cur)
	li.preState = pre
	li.preAlloc = e.heapIn(pre, AllocVar)
	var lc *LoopContract
	if e.con != nil {
		lc = e.con.Loops[li.ordinal]
	}
	// "ordered": the loop must not be a range over a map (whose order Go randomises)
	if lc != nil && lc.Ordered != nil && clauseActive(*lc.Ordered, e.prop) {
		goal := "true"
		if e.inMapRange(b) && e.mapRangeHeader(b) {
			goal = "false"
		}
		e.oblige(&Obligation{Name: fmt.Sprintf("loop%d.ordered", li.ordinal), Kind: "protocol", Clause: lc.Ordered.Src, Tags: lc.Ordered.Tags, Guard: e.curGuard, Goal: goal})
	}
	// 1. invariant on entry
	entryVals := map[*ssa.Phi]Val{}
	for _, p := range phis {
		entryVals[p] = Val{T: e.define("phi.in."+mangle(p.Name()), e.sorts().SortOf(p.Type()), phiIn(p, fwd)), Ty: p.Type()}
	}
	li.modRefs = map[string][]modT{}
	li.entryVals = entryVals
	if lc != nil {
		envE := e.specEnv(pre, e.initState, entryVals)
		envE.loopOrd = li.ordinal
		envE.pre = pre
		for _, c := range lc.Modifies {
			e.addModRef(envE, c, li.modRefs)
		}
		for k, c := range lc.Invariants {
			if !clauseActive(c, e.prop) {
				continue
			}
			e.obligeClause(envE, c, fmt.Sprintf("loop%d.inv%d.entry", li.ordinal, k+1), "inv-entry", e.curGuard, fmt.Sprintf("%s:%d", shortFile(c.File), c.Line))
		}
	}
	// local allocations made before the loop and written inside it are modification targets by construction
	for _, lb := range e.fn.Blocks {
		if !li.blocks[lb] {
			continue
		}
		for _, in := range lb.Instrs {
			if ci, ok := in.(ssa.CallInstruction); ok {
				// a local allocation whose address is handed to a call inside the loop may be modified by it
				for _, a := range ci.Common().Args {
					root := a
					for {
						if fa, ok := root.(*ssa.FieldAddr); ok {
							root = fa.X
							continue
						}
						break
					}
					if al, ok := root.(*ssa.Alloc); ok && !li.blocks[al.Block()] {
						if av, ok := e.vals[al]; ok {
							hn := e.sorts().CellHeap(al.Type().Underlying().(*types.Pointer).Elem()).Name
							li.modRefs[hn] = append(li.modRefs[hn], modT{ref: av.T})
						}
					}
					// a local map handed to a call inside the loop (an owned position) may be updated by the callee
					if mm, ok := a.(*ssa.MakeMap); ok && !li.blocks[mm.Block()] {
						if mv, ok := e.vals[mm]; ok {
							mt := mm.Type().Underlying().(*types.Map)
							sr := e.sorts()
							for _, hn := range []string{sr.MapDom(mt.Key()).Name, sr.MapVal(mt.Key(), mt.Elem()).Name, MapLen.Name} {
								li.modRefs[hn] = append(li.modRefs[hn], modT{ref: mv.T})
							}
						}
					}
				}
				continue
			}
			if mu, ok := in.(*ssa.MapUpdate); ok {
				if mk, ok := mu.Map.(*ssa.MakeMap); ok && !li.blocks[mk.Block()] {
					if mv, ok := e.vals[mk]; ok {
						mt := mk.Type().Underlying().(*types.Map)
						for _, hn := range []string{e.sorts().MapDom(mt.Key()).Name, e.sorts().MapVal(mt.Key(), mt.Elem()).Name, MapLen.Name} {
							li.modRefs[hn] = append(li.modRefs[hn], modT{ref: mv.T})
						}
					}
				}
				continue
			}
			st, ok := in.(*ssa.Store)
			if !ok {
				continue
			}
			root := st.Addr
			for {
				if fa, ok := root.(*ssa.FieldAddr); ok {
					root = fa.X
					continue
				}
				if ia, ok := root.(*ssa.IndexAddr); ok {
					if slt, isSl := ia.X.Type().Underlying().(*types.Slice); isSl {
						// an element store through a slice value that exists before the loop: that backing array is a target
						if def, isInstr := ia.X.(ssa.Instruction); !isInstr || !li.blocks[def.Block()] {
							if sv, ok := e.vals[ia.X]; ok && sv.T != "" {
								hn := e.sorts().ArrHeap(slt.Elem()).Name
								li.modRefs[hn] = append(li.modRefs[hn], modT{ref: sx("sref", sv.T)})
							}
						}
						break
					}
					root = ia.X
					continue
				}
				break
			}
			if al, ok := root.(*ssa.Alloc); ok && !li.blocks[al.Block()] {
				if av, ok := e.vals[al]; ok {
					hn := e.sorts().CellHeap(al.Type().Underlying().(*types.Pointer).Elem()).Name
					li.modRefs[hn] = append(li.modRefs[hn], modT{ref: av.T})
				}
			}
		}
	}
	// the map-clearing idiom `for k := range m { delete(m, k) }`: the map is a modification target and every visited
	// key has been deleted (an invariant supplied by the generator, proved at the back edge like any other)
	clearMap, clearVis, clearKT := e.clearIdiom(li)
	if clearMap != nil {
		mv := e.val(clearMap)
		mt := clearMap.Type().Underlying().(*types.Map)
		for _, hn := range []string{e.sorts().MapDom(mt.Key()).Name, MapLen.Name} {
			li.modRefs[hn] = append(li.modRefs[hn], modT{ref: mv.T})
		}
	}
	// 2. havoc
	mod := e.loopModSet(li)
	for _, p := range phis {
		e.havocVal(p)
	}
	for _, name := range sortedKeys(mod) {
		hv, ok := e.heapVars[name]
		if !ok {
			continue
		}
		if name == AllocVar.Name {
			na := e.declare("alloc", "Int")
			e.cur[name] = na
			e.assume(sx(">=", na, li.preAlloc))
			continue
		}
		old := e.heapIn(pre, hv)
		nw := e.havocHeap(hv)
		if strings.HasPrefix(name, "VIS.") || strings.HasPrefix(name, "POS.") || strings.HasPrefix(name, "GH.") {
			continue
		}
		// frame: objects that existed before the loop and are not declared modified keep their value. A function
		// declared noframe promises no frame anywhere: none is assumed for its loops (and none has to be proved).
		if !mod["*"] && !(e.con != nil && e.con.NoFrame) {
			e.assume(e.frameFact(nw, old, li.preAlloc, li.modRefs[name]))
		} else {
			for _, l := range e.locals {
				if l.esc.escapedAt(li.header, 0) {
					continue // the object may have escaped on an earlier iteration
				}
				if fw, ind := e.indirectWrites(li)[name]; l.heap == name && ind {
					// the loop writes this heap through a pointer / map it loaded: that may be this object. For a
					// struct, the fields no such store touches keep their value whatever object is hit.
					if st, isStruct := structOf(l.elem); isStruct && !fw[-1] && !e.writtenInLoop(li, l.ref) {
						for f := 0; f < st.NumFields(); f++ {
							if !fw[f] {
								e.assume(sx("=", e.sorts().GetField(l.elem, sx("select", nw, l.ref), f), e.sorts().GetField(l.elem, sx("select", old, l.ref), f)))
							}
						}
					}
					continue
				}
				if l.heap == name && !e.writtenInLoop(li, l.ref) {
					e.assume(sx("=", sx("select", nw, l.ref), sx("select", old, l.ref)))
				}
			}
		}
	}
	li.hdrState = copyState(e.cur)
	if clearMap != nil {
		e.assume(e.clearInv(e.cur, clearMap, clearVis, clearKT))
	}
	// 3. assume invariants
	if lc != nil {
		envH := e.specEnv(e.cur, e.initState, nil)
		envH.loopOrd = li.ordinal
		envH.pre = li.preState
		li.otherInv = nil
		for _, c := range lc.Invariants {
			if !clauseActive(c, e.prop) {
				// proved under the property it is tagged for; here it only serves as a hypothesis of the loop's frame
				// obligations (which are proved under every property)
				if t, err := envH.EvalBool(c.Expr); err == nil {
					li.otherInv = append(li.otherInv, t)
				}
				continue
			}
			if t, err := envH.EvalBool(c.Expr); err == nil {
				e.assume(t)
			}
		}
	}
}

type modT struct {
	ref, idx string
	field    int        // >= 0 with fieldTy != nil: only this field of the struct object is a target
	fieldTy  types.Type // the struct type
}

// frameFact: every object with reference <= allocBound (or every object, if allocBound is empty) that is not a
// declared modification target has the same value in nw as in old; for targets that name one slice element,
// the other elements of that backing array are unchanged too.
func (e *FnEnc) frameFact(nw, old, allocBound string, except []modT) string {
	return e.frameFactP(nw, old, allocBound, except, true)
}

func (e *FnEnc) frameGoal(nw, old, allocBound string, except []modT) string {
	return e.frameFactP(nw, old, allocBound, except, false)
}

func (e *FnEnc) frameFactP(nw, old, allocBound string, except []modT, pat bool) string {
	q := fmt.Sprintf("r!q%d", e.nextQ())
	var conds []string
	if allocBound != "" {
		conds = append(conds, sx("<=", q, allocBound))
	}
	byRef := map[string][]string{}
	var order []string
	nilSame := sx("=", sx("select", nw, "0"), sx("select", old, "0"))
	for _, t := range except {
		if _, ok := byRef[t.ref]; !ok {
			order = append(order, t.ref)
			conds = append(conds, not(sx("=", q, t.ref)))
		}
		byRef[t.ref] = append(byRef[t.ref], t.idx)
	}
	facts := []string{fmt.Sprintf("(forall ((%s Int)) (! (=> %s (= (select %s %s) (select %s %s))) :pattern ((select %s %s))))", q, and(conds...), nw, q, old, q, nw, q)}
	if !pat {
		facts = []string{fmt.Sprintf("(forall ((%s Int)) (=> %s (= (select %s %s) (select %s %s))))", q, and(conds...), nw, q, old, q)}
	}
	// targets that name single fields of a struct object: the other fields keep their values
	fieldsOf := map[string][]modT{}
	for _, t := range except {
		if t.fieldTy != nil {
			fieldsOf[t.ref] = append(fieldsOf[t.ref], t)
		}
	}
	for _, r := range order {
		fs := fieldsOf[r]
		if len(fs) == 0 {
			continue
		}
		onlyFields := true
		for _, t := range except {
			if t.ref == r && t.fieldTy == nil {
				onlyFields = false
			}
		}
		if !onlyFields {
			continue
		}
		ty := fs[0].fieldTy
		upd := sx("select", old, r)
		for _, t := range fs {
			upd = e.sorts().UpdateField(ty, upd, t.field, e.sorts().GetField(ty, sx("select", nw, r), t.field))
		}
		facts = append(facts, sx("=", sx("select", nw, r), upd))
	}
	for _, r := range order {
		whole := false
		var ic []string
		qi := fmt.Sprintf("i!q%d", e.nextQ())
		for _, ix := range byRef[r] {
			if ix == "" {
				whole = true
			} else {
				ic = append(ic, not(sx("=", qi, ix)))
			}
		}
		if whole {
			continue
		}
		if pat {
			facts = append(facts, fmt.Sprintf("(forall ((%s Int)) (! (=> %s (= (select (select %s %s) %s) (select (select %s %s) %s))) :pattern ((select (select %s %s) %s))))", qi, and(ic...), nw, r, qi, old, r, qi, nw, r, qi))
		} else {
			facts = append(facts, fmt.Sprintf("(forall ((%s Int)) (=> %s (= (select (select %s %s) %s) (select (select %s %s) %s))))", qi, and(ic...), nw, r, qi, old, r, qi))
		}
	}
	facts = append(facts, nilSame)
	return and(facts...)
}

func (e *FnEnc) backEdge(from *ssa.BasicBlock, li *loopInfo) {
	h := li.header
	g := e.edgeGuard(from, h)
	st := e.exit[from]
	var lc *LoopContract
	if e.con != nil {
		lc = e.con.Loops[li.ordinal]
	}
	over := map[*ssa.Phi]Val{}
	for _, in := range h.Instrs {
		p, ok := in.(*ssa.Phi)
		if !ok {
			break
		}
		for j, q := range h.Preds {
			if q == from {
				iv := e.val(p.Edges[j])
				over[p] = Val{T: iv.T, Ty: p.Type()}
			}
		}
	}
	saveG, saveC := e.curGuard, e.cur
	st = copyState(st)
	e.curGuard, e.cur = g, st
	if lc != nil && len(lc.Updates) > 0 {
		envU := e.specEnv(st, e.initState, over)
		envU.loopOrd = li.ordinal
		envU.pre = li.preState
		envU.site = from
		envP := e.specEnv(li.hdrState, e.initState, nil)
		envP.loopOrd = li.ordinal
		envP.pre = li.preState
		envU.prevEnv = envP
		newVals := map[string]string{}
		for _, u := range lc.Updates {
			hv, ok := e.ghosts[u.Name]
			if !ok {
				e.bindFail("update "+u.Name, "no such ghost variable")
				continue
			}
			v, err := envU.EvalVal(u.Expr)
			if err != nil {
				e.bindFail(fmt.Sprintf("loop%d.update.%s", li.ordinal, u.Name), err.Error()+" in "+u.Src)
				continue
			}
			newVals[hv.Name] = e.define(hv.Name, hv.Sort, v.T)
		}
		for k, v := range newVals {
			st[k] = v
		}
	}
	if e.con != nil {
		e.oblige(&Obligation{Name: fmt.Sprintf("cover.loop%d.backedge@b%d", li.ordinal, from.Index), Kind: "cover", Clause: "loop body reachable under the invariant", Guard: g, Goal: "false"})
	}
	if lc != nil {
		env := e.specEnv(st, e.initState, over)
		env.loopOrd = li.ordinal
		env.pre = li.preState
		env.site = from
		for k, c := range lc.Invariants {
			if !clauseActive(c, e.prop) {
				continue
			}
			// a latch that several paths of the body run into (the "i++" block of a three-clause for loop): one obligation
			// per incoming path (a sound case split: the paths' edge guards cover the latch's guard); under one edge the
			// merged state collapses to that path's state, which is what the solvers need
			var ins []*ssa.BasicBlock
			for _, p := range from.Preds {
				if _, done := e.exit[p]; done && !isBackEdge(p, from) && p != from {
					dup := false
					for _, q := range ins {
						dup = dup || q == p
					}
					if !dup {
						ins = append(ins, p)
					}
				}
			}
			n0 := len(e.obls)
			e.obligeClause(env, c, fmt.Sprintf("loop%d.inv%d.preserved@b%d", li.ordinal, k+1, from.Index), "inv-preserved", g, fmt.Sprintf("%s:%d", shortFile(c.File), c.Line))
			n1 := len(e.obls)
			if len(ins) >= 2 && len(ins) <= 8 && e.loops[from] == nil && !e.pure {
				// alternatives, tried when the solvers do not decide the obligation as a whole
				for _, p := range ins {
					e.obligeClause(env, c, fmt.Sprintf("loop%d.inv%d.preserved@b%d.from-b%d", li.ordinal, k+1, from.Index, p.Index), "inv-preserved", and(g, e.edgeGuard(p, from)), fmt.Sprintf("%s:%d", shortFile(c.File), c.Line))
					part := e.obls[n1:]
					if len(part) == n1-n0 {
						for j, a := range part {
							e.obls[n0+j].Alts = append(e.obls[n0+j].Alts, a)
						}
					}
					e.obls = e.obls[:n1]
				}
			}
			continue
			e.obligeClause(env, c, fmt.Sprintf("loop%d.inv%d.preserved@b%d", li.ordinal, k+1, from.Index), "inv-preserved", g, fmt.Sprintf("%s:%d", shortFile(c.File), c.Line))
		}
		if lc.Decreases != nil {
			envH := e.specEnv(li.hdrState, e.initState, nil)
			envH.loopOrd = li.ordinal
			d0, err0 := envH.EvalVal(lc.Decreases.Expr)
			d1, err1 := env.EvalVal(lc.Decreases.Expr)
			if err0 != nil || err1 != nil {
				e.bindFail(fmt.Sprintf("loop%d.decreases", li.ordinal), fmt.Sprint(err0, err1))
			} else {
				e.oblige(&Obligation{Name: fmt.Sprintf("loop%d.decreases@b%d", li.ordinal, from.Index), Kind: "decreases", Clause: lc.Decreases.Src, Tags: lc.Decreases.Tags,
					Guard: g, Goal: and(sx("<", d1.T, d0.T), sx(">=", d0.T, "0"))})
			}
		}
	}
	if cm, cv, ck := e.clearIdiom(li); cm != nil {
		e.oblige(&Obligation{Name: fmt.Sprintf("loop%d.clear-idiom@b%d", li.ordinal, from.Index), Kind: "inv-preserved", Clause: "every key visited by the clearing loop has been deleted",
			Guard: g, Goal: e.clearInv(st, cm, cv, ck)})
	}
	// frame preserved: pre-existing, undeclared objects unchanged at the back edge
	mod := e.loopModSet(li)
	for _, name := range sortedKeys(mod) {
		hv, ok := e.heapVars[name]
		if !ok || mod["*"] || (e.con != nil && e.con.NoFrame) || name == AllocVar.Name || strings.HasPrefix(name, "VIS.") || strings.HasPrefix(name, "POS.") || strings.HasPrefix(name, "GH.") {
			continue
		}
		nw := e.heapIn(st, hv)
		hd := e.heapIn(li.hdrState, hv)
		if nw == hd {
			continue
		}
		e.oblige(&Obligation{Name: fmt.Sprintf("loop%d.frame.%s@b%d", li.ordinal, name, from.Index), Kind: "frame", Clause: "objects allocated before the loop and not in its modifies clause are unchanged",
			Guard: and(append([]string{g}, li.otherInv...)...), Goal: e.frameGoal(nw, e.heapIn(li.preState, hv), li.preAlloc, li.modRefs[name])})
	}
	e.curGuard, e.cur = saveG, saveC
}

func shortFile(f string) string {
	return strings.TrimPrefix(f, "/repo/")
}

func (e *FnEnc) ret(r *ssa.Return) {
	var res []Val
	for _, x := range r.Results {
		v := e.val(x)
		if v.T == "" {
			e.abstract("derived address returned")
			v.T = e.declare("esc", e.sorts().SortOf(x.Type()))
		}
		res = append(res, v)
	}
	e.retVals = append(e.retVals, res)
	if e.parent != nil {
		e.rets = append(e.rets, retInfo{e.curGuard, res, copyState(e.cur)})
	}
	if e.con == nil {
		return
	}
	e.oblige(&Obligation{Name: "cover.return@" + e.posOf(r), Kind: "cover", Clause: "return reachable under the assumptions", Guard: e.curGuard, Goal: "false", Pos: e.posOf(r)})
	env := e.specEnv(e.cur, e.initState, nil)
	env.site = e.curBlock
	e.bindResults(env, e.fn.Signature, res)
	for k, c := range e.con.Ensures {
		if !clauseActive(c, e.prop) {
			continue
		}
		e.obligeClause(env, c, fmt.Sprintf("ensures%d@%s", k+1, e.posOf(r)), "post", e.curGuard, e.posOf(r))
	}
	for k, c := range e.con.ReturnEnsures {
		if !clauseActive(c, e.prop) {
			continue
		}
		renv := e.specEnv(e.cur, e.initState, nil)
		renv.site = e.curBlock
		e.bindResults(renv, e.fn.Signature, res)
		if _, err := renv.EvalBool(c.Expr); err != nil {
			if os.Getenv("GOVC_DEBUG") != "" {
				fmt.Fprintf(os.Stderr, "return-ensures %d not in scope at %s: %v\n", k+1, e.posOf(r), err)
			}
			continue // the clause speaks about locals that are not in scope at this return
		}
		e.returnEnsuresBound[k]++
		e.obligeClause(renv, c, fmt.Sprintf("return-ensures%d@%s", k+1, e.posOf(r)), "post", e.curGuard, e.posOf(r))
	}
	for _, li := range e.loopList {
		lc := e.con.Loops[li.ordinal]
		if lc == nil || len(lc.ReturnEnsures) == 0 {
			continue
		}
		inBody := false // the return leaves the loop from its body (not through the header's exit edge)
		for b := range li.blocks {
			if b != li.header && b.Dominates(e.curBlock) {
				inBody = true
			}
		}
		if !inBody {
			continue
		}
		lenv := e.specEnv(e.cur, e.initState, nil)
		lenv.site = e.curBlock
		lenv.loopOrd = li.ordinal
		lenv.pre = li.preState
		e.bindResults(lenv, e.fn.Signature, res)
		for k, c := range lc.ReturnEnsures {
			if !clauseActive(c, e.prop) {
				continue
			}
			e.obligeClause(lenv, c, fmt.Sprintf("loop%d.return-ensures%d@%s", li.ordinal, k+1, e.posOf(r)), "post", e.curGuard, e.posOf(r))
		}
	}
	// frame of the whole function: pre-existing objects not in modifies are unchanged
	for _, name := range sortedKeys(e.heapVars) {
		if e.con.NoFrame {
			break
		}
		hv := e.heapVars[name]
		if name == AllocVar.Name || strings.HasPrefix(name, "VIS.") || strings.HasPrefix(name, "POS.") || strings.HasPrefix(name, "GH.") {
			continue
		}
		nw := e.heap(hv)
		if nw == name+"@0" {
			continue
		}
		e.oblige(&Obligation{Name: fmt.Sprintf("frame.%s@%s", name, e.posOf(r)), Kind: "frame", Clause: "objects that existed at entry and are not in the modifies clause are unchanged",
			Guard: e.curGuard, Goal: e.frameGoal(nw, name+"@0", "alloc@0", e.modRefsFn[name])})
	}
}

func (e *FnEnc) bindResults(env *Env, sig *types.Signature, res []Val) {
	rs := sig.Results()
	for i := 0; i < rs.Len() && i < len(res); i++ {
		if n := rs.At(i).Name(); n != "" && n != "_" {
			env.vars[n] = res[i]
		}
		env.vars[fmt.Sprintf("result%d", i)] = res[i]
	}
	if len(res) == 1 {
		env.vars["result"] = res[0]
	}
	if len(res) > 1 {
		env.vars["result"] = Val{Tup: res}
	}
}

// specEnv builds the environment for clauses of the current function.
func (e *FnEnc) specEnv(st, old State, phiOver map[*ssa.Phi]Val) *Env {
	env := &Env{e: e, st: st, old: old, vars: map[string]Val{}, guard: e.curGuard}
	if e.fn.Pkg != nil {
		env.pkg = e.fn.Pkg.Pkg
	} else if e.fn.Parent() != nil && e.fn.Parent().Pkg != nil {
		env.pkg = e.fn.Parent().Pkg.Pkg
	}
	for k, v := range e.lets {
		env.vars[k] = v
	}
	env.lookup = func(cur *Env, name string) (Val, bool) { return e.lookupName(cur, name, phiOver) }
	return env
}

func (e *FnEnc) lookupName(env *Env, name string, phiOver map[*ssa.Phi]Val) (Val, bool) {
	if v, ok := e.lookupName1(env, name, phiOver); ok {
		return v, true
	}
	// the local may have been renamed since the contract was written (rename tolerance, names.go)
	if e.renames == nil {
		e.renames = e.W.renamesFor(e.fn)
		if e.renames == nil {
			e.renames = map[string]string{}
		}
	}
	if nn, ok := e.renames[name]; ok {
		if v, ok := e.lookupName1(env, nn, phiOver); ok {
			e.note("contract name " + name + " read as the renamed local " + nn)
			return v, true
		}
	}
	return Val{}, false
}

func (e *FnEnc) lookupName1(env *Env, name string, phiOver map[*ssa.Phi]Val) (Val, bool) {
	if hv, ok := e.ghosts[name]; ok {
		return Val{T: e.heapIn(env.st, hv), Sort: hv.Sort, Ty: goTypeOfSort(hv.Sort)}, true
	}
	if env.oldMode {
		for _, p := range e.fn.Params {
			if p.Name() == name {
				return e.vals[p], true
			}
		}
	}
	for _, p := range e.fn.FreeVars {
		if p.Name() == name {
			return e.vals[p], true
		}
	}
	// loop-scoped names (a parameter reassigned in a loop is that loop's phi inside loop clauses)
	if env.loopOrd > 0 && env.loopOrd <= len(e.loopList) {
		// search this loop, then enclosing loops
		cands := []*loopInfo{e.loopList[env.loopOrd-1]}
		for _, l := range e.loopList {
			if l != cands[0] && l.blocks[cands[0].header] {
				cands = append(cands, l)
			}
		}
		for ci, li := range cands {
			for _, in := range li.header.Instrs {
				p, ok := in.(*ssa.Phi)
				if !ok {
					break
				}
				get := func() Val {
					if env.preMode && li.entryVals != nil {
						if v, ok := li.entryVals[p]; ok {
							return v
						}
					}
					if ci == 0 {
						if v, ok := phiOver[p]; ok {
							return v
						}
					}
					return e.vals[p]
				}
				if p.Comment == name {
					return get(), true
				}
				if name == "#i" && ci == 0 && p.Comment == "rangeindex" {
					v := get()
					return Val{T: sx("+", v.T, "1"), Ty: tInt}, true
				}
			}
			if name == "#i" && ci == 0 {
				// an explicit counting loop "for i := 0; ...; i++": the counter is the number of completed iterations,
				// exactly what #i denotes in the range form of the same loop
				var cnt *ssa.Phi
				n := 0
				for _, in := range li.header.Instrs {
					p, ok := in.(*ssa.Phi)
					if !ok {
						break
					}
					if canonicalCounter(p, li) {
						cnt = p
						n++
					}
				}
				if n == 1 {
					p := cnt
					if env.preMode && li.entryVals != nil {
						if v, ok := li.entryVals[p]; ok {
							return v, true
						}
					}
					if v, ok := phiOver[p]; ok {
						return v, true
					}
					return e.vals[p], true
				}
			}
			if name == "#visited" {
				// the visited set of this map range, or of the closest enclosing one
				for _, in := range li.header.Instrs {
					if nx, ok := in.(*ssa.Next); ok {
						if hv, ok := e.rangeVis[nx.Iter]; ok && !nx.IsString {
							mt := nx.Iter.(*ssa.Range).X.Type().Underlying().(*types.Map)
							return Val{T: e.heapIn(env.st, hv), SetElem: mt.Key()}, true
						}
					}
				}
			}
			if name == "#pos" && ci == 0 {
				for _, in := range li.header.Instrs {
					if nx, ok := in.(*ssa.Next); ok {
						if hv, ok := e.rangeVis[nx.Iter]; ok && nx.IsString {
							return Val{T: e.heapIn(env.st, hv), Ty: tInt}, true
						}
					}
				}
			}
		}
	}
	// outside loop clauses a parameter name denotes the argument (its value on entry), as in requires / ensures
	for _, p := range e.fn.Params {
		if p.Name() == name {
			return e.vals[p], true
		}
	}
	for _, p := range e.fn.FreeVars {
		if p.Name() == name {
			return e.vals[p], true
		}
	}
	if strings.HasPrefix(name, "%") {
		for v, x := range e.vals {
			if v.Name() == name[1:] {
				return x, true
			}
		}
	}
	site := env.site
	if site == nil && env.loopOrd > 0 && env.loopOrd <= len(e.loopList) {
		site = e.loopList[env.loopOrd-1].header
	}
	// a phi carrying that source name in a block dominating the site (closest one)
	if site != nil {
		var best *ssa.Phi
		for _, b := range e.fn.Blocks {
			if b == site || !b.Dominates(site) {
				continue
			}
			for _, in := range b.Instrs {
				p, ok := in.(*ssa.Phi)
				if !ok {
					break
				}
				if p.Comment == name {
					if best == nil || best.Block().Dominates(b) {
						best = p
					}
				}
			}
		}
		if best != nil {
			if v, ok := e.vals[best]; ok {
				return v, true
			}
		}
	}
	// a local that lives in a heap cell (captured by a function literal) and whose debug bindings are all loads of
	// that cell denotes the cell's *current* content (the state the clause is evaluated in), not one particular load
	if bs := e.debugNames[name]; len(bs) > 0 {
		var cell *ssa.Alloc
		n := 0
		for _, b := range e.fn.Blocks {
			for _, in := range b.Instrs {
				if a, isA := in.(*ssa.Alloc); isA && a.Comment == name && a.Heap {
					cell = a
					n++
				}
			}
		}
		ok := n == 1
		for _, b := range bs {
			if b.addr {
				ok = false
			}
		}
		if ok {
			if pv, have := e.vals[cell]; have {
				return env.deref(pv), true
			}
		}
	}
	// debug bindings: a source variable bound to a unique SSA value
	if bs := e.debugNames[name]; len(bs) > 0 {
		// a variable that lives in a cell (address-taken, captured) is that cell wherever it is mentioned
		var cell ssa.Value
		cellOK := true
		for _, b := range bs {
			if b.addr {
				if cell == nil || cell == b.val {
					cell = b.val
				} else {
					cellOK = false
				}
			}
		}
		if cell != nil && cellOK {
			if v, ok := e.vals[cell]; ok {
				return v, true
			}
		}
		var uniq ssa.Value
		okU := true
		for _, b := range bs {
			if _, isC := b.val.(*ssa.Const); isC && !b.addr {
				continue
			}
			if uniq == nil || uniq == b.val {
				uniq = b.val
			} else {
				okU = false
			}
		}
		if okU && uniq != nil {
			if v, ok := e.vals[uniq]; ok {
				return v, true
			}
		}
		if okU && uniq == nil {
			// only the declaration's zero value has been met so far ("x := []T{...}" records x as nil before the
			// literal is built): if every later mention of the variable is one value that is already encoded, that is x
			var later ssa.Value
			one := true
			for _, b := range e.fn.Blocks {
				for _, in := range b.Instrs {
					d, isD := in.(*ssa.DebugRef)
					if !isD || d.Object() == nil || d.Object().Name() != name || d.IsAddr {
						continue
					}
					if _, isC := d.X.(*ssa.Const); isC {
						continue
					}
					if later == nil || later == d.X {
						later = d.X
					} else {
						one = false
					}
				}
			}
			if one && later != nil {
				if v, ok := e.vals[later]; ok {
					return v, true
				}
			}
		}
		// otherwise: the closest binding that dominates the site
		if site != nil {
			var best *debugBinding
			for k := range bs {
				b := &bs[k]
				if b.block != site && !b.block.Dominates(site) {
					continue
				}
				if b.block == site && env.loopOrd > 0 && e.loops[site] != nil {
					continue
				}
				if best == nil || best.block.Dominates(b.block) {
					best = b
				}
			}
			if best != nil {
				if v, ok := e.vals[best.val]; ok {
					return v, true
				}
				if c, ok := best.val.(*ssa.Const); ok {
					return e.constVal(c), true
				}
			}
		}
	}
	for _, p := range e.fn.Params {
		if p.Name() == name {
			return e.vals[p], true
		}
	}
	for _, p := range e.fn.FreeVars {
		if p.Name() == name {
			return e.vals[p], true
		}
	}
	// named results stored in cells (functions with defers) are exposed through debug bindings above
	return Val{}, false
}

// contractCall applies a callee contract at a call site.
func (e *FnEnc) contractCall(v ssa.Value, con *FuncContract, callee *ssa.Function, args []Val, sig *types.Signature, in ssa.Instruction) {
	pre := copyState(e.cur)
	env := &Env{e: e, st: pre, old: pre, vars: map[string]Val{}, guard: e.curGuard}
	if callee != nil {
		if callee.Pkg != nil {
			env.pkg = callee.Pkg.Pkg
		} else if callee.Parent() != nil && callee.Parent().Pkg != nil {
			env.pkg = callee.Parent().Pkg.Pkg
		}
		k := 0
		for _, fv := range callee.FreeVars {
			if k < len(args) {
				env.vars[fv.Name()] = args[k]
				k++
			}
		}
		for _, p := range callee.Params {
			if k < len(args) {
				a := args[k]
				if a.T == "" && a.Loc != nil {
					// address of a field/element passed to a contract: usable as a location in its clauses
				}
				env.vars[p.Name()] = a
				k++
			}
		}
		// rename tolerance: the contract may still use the names the parameters had when it was written
		for oldName, newName := range e.W.renamesFor(callee) {
			if v, ok := env.vars[newName]; ok {
				if _, taken := env.vars[oldName]; !taken {
					env.vars[oldName] = v
				}
			}
		}
	} else {
		// trusted signature-only contract: parameters named a0, a1, ... and recv
		for k, a := range args {
			env.vars[fmt.Sprintf("a%d", k)] = a
		}
		if len(args) > 0 {
			env.vars["recv"] = args[0]
		}
		if sig != nil && sig.Params().Len() == len(args)-1 {
			for k := 0; k < sig.Params().Len(); k++ {
				if n := sig.Params().At(k).Name(); n != "" && n != "_" {
					env.vars[n] = args[k+1]
				}
			}
		}
	}
	for _, a := range args {
		if a.T == "" && a.Loc != nil {
			e.note("address of a field or element passed to " + con.Name + " (copy-in/copy-out not modelled; callee contract sees the location)")
		}
	}
	tag := "contract"
	if con.Trusted {
		tag = "A7 trusted contract"
	}
	e.note(fmt.Sprintf("%s: %s", tag, con.Name))
	e.calleeUsed[con.Pkg+"::"+con.Name] = true
	for _, l := range con.Lets {
		x, err := ParseExpr(l.Type)
		if err == nil {
			if lv, err := env.EvalVal(x); err == nil {
				env.vars[l.Name] = lv
			}
		}
	}
	for k, c := range con.Requires {
		if !clauseActive(c, e.prop) {
			continue
		}
		name := fmt.Sprintf("call.%s.requires%d@%s", mangle(con.Name), k+1, e.posOf(in))
		e.obligeClause(env, c, name, "pre", e.curGuard, e.posOf(in))
		if t, err := env.EvalBool(c.Expr); err == nil {
			e.assume(t)
		}
	}
	// termination: a call from a function with a measure to a function with a measure must decrease it
	if con.Decreases != nil && e.con != nil && e.con.Decreases != nil && clauseActive(*con.Decreases, e.prop) {
		callerEnv := e.specEnv(e.initState, e.initState, nil)
		m0, err0 := callerEnv.EvalVal(e.con.Decreases.Expr)
		m1, err1 := env.EvalVal(con.Decreases.Expr)
		name := fmt.Sprintf("call.%s.decreases@%s", mangle(con.Name), e.posOf(in))
		if err0 != nil || err1 != nil {
			e.bindFail(name, fmt.Sprint(err0, err1))
		} else {
			e.oblige(&Obligation{Name: name, Kind: "decreases", Clause: con.Decreases.Src + " < " + e.con.Decreases.Src, Tags: con.Decreases.Tags, Guard: e.curGuard,
				Goal: and(sx("<", m1.T, m0.T), sx(">=", m0.T, "0")), Pos: e.posOf(in)})
		}
	}
	// havoc declared modifies
	mods := map[string][]modT{}
	for _, c := range con.Modifies {
		e.addModRef(env, c, mods)
	}
	for _, name := range sortedKeys(mods) {
		hv := e.heapVars[name]
		old := e.heap(hv)
		nw := e.havocHeap(hv)
		e.assume(e.frameFact(nw, old, "", mods[name]))
	}
	if con.NoFrame {
		if callee != nil && inModule(callee) {
			e.havocEffects(e.W.EffectsOf(callee), con.Name+" (noframe contract)", args...)
		} else {
			e.havocAll(con.Name+" (noframe contract)", args...)
		}
	}
	oa := e.alloc()
	na := e.declare("alloc", "Int")
	e.cur[AllocVar.Name] = na
	e.assume(sx(">=", na, oa))
	// the callee's ghost variables are existentially quantified for the caller
	for _, g := range con.Ghosts {
		if callee != nil {
			if srt := e.W.ghostSort(g.Type, callee); srt != "" {
				env.vars[g.Name] = Val{T: e.declare("ghost."+mangle(g.Name), srt), Sort: srt, Ty: goTypeOfSort(srt)}
			}
		}
	}
	// results
	var res []Val
	rs := sig.Results()
	for i := 0; i < rs.Len(); i++ {
		n := e.declare(fmt.Sprintf("ret.%s.%d", mangle(con.Name), i), e.sorts().SortOf(rs.At(i).Type()))
		x := Val{T: n, Ty: rs.At(i).Type()}
		e.assumeValid(x)
		res = append(res, x)
	}
	post := &Env{e: e, st: e.cur, old: pre, vars: env.vars, pkg: env.pkg, guard: e.curGuard}
	e.bindResults(post, sig, res)
	for _, c := range con.Ensures {
		if !clauseActive(c, e.prop) {
			continue
		}
		if t, err := post.EvalBool(c.Expr); err == nil {
			e.assume(t)
		} else {
			e.bindFail("call."+mangle(con.Name)+".ensures", err.Error()+" in "+c.Src)
		}
	}
	if v != nil {
		switch {
		case rs.Len() == 1:
			res[0].Ty = v.Type()
			e.vals[v] = res[0]
		case rs.Len() > 1:
			e.vals[v] = Val{Ty: v.Type(), Tup: res}
		}
	}
}

// obligeClause evaluates a clause conjunct by conjunct and records one obligation per conjunct.
func (e *FnEnc) obligeClause(env *Env, c Clause, name, kind, guard, pos string) {
	t, err := env.EvalBool(c.Expr)
	if err != nil {
		e.bindFail(name, err.Error()+" in "+c.Src)
		return
	}
	parts := splitGoal(t)
	for k, pt := range parts {
		n := name
		if len(parts) > 1 {
			n = fmt.Sprintf("%s.%d", name, k+1)
		}
		e.oblige(&Obligation{Name: n, Kind: kind, Clause: c.Src, Tags: c.Tags, Guard: guard, Goal: pt, Pos: pos})
	}
}

func (e *FnEnc) revealed(name string) bool {
	if e.con == nil {
		return false
	}
	for _, r := range e.con.Reveals {
		if r == name {
			return true
		}
	}
	return false
}

// writtenInLoop: the loop stores through the local allocation with this reference term.
// indirectWrites: the heap variables the loop writes through an address that is not syntactically a local allocation
// (a pointer loaded from a cell or field, a map read from a field): such a write may hit any object of that heap.
func structOf(t types.Type) (*types.Struct, bool) {
	if t == nil {
		return nil, false
	}
	st, ok := t.Underlying().(*types.Struct)
	return st, ok
}

func (e *FnEnc) indirectWrites(li *loopInfo) map[string]map[int]bool {
	if li.indirect != nil {
		return li.indirect
	}
	out := map[string]map[int]bool{}
	mark := func(h string, f int) {
		if out[h] == nil {
			out[h] = map[int]bool{}
		}
		out[h][f] = true
	}
	s := e.sorts()
	directRoot := func(addr ssa.Value) bool {
		for {
			switch a := addr.(type) {
			case *ssa.FieldAddr:
				addr = a.X
				continue
			case *ssa.IndexAddr:
				if _, isSl := a.X.Type().Underlying().(*types.Slice); isSl {
					return false
				}
				addr = a.X
				continue
			case *ssa.Alloc:
				return true
			}
			return false
		}
	}
	mapHeaps := func(m ssa.Value) {
		if _, direct := m.(*ssa.MakeMap); direct {
			return
		}
		if mt, ok := m.Type().Underlying().(*types.Map); ok {
			mark(s.MapDom(mt.Key()).Name, -1)
			mark(s.MapVal(mt.Key(), mt.Elem()).Name, -1)
			mark(MapLen.Name, -1)
		}
	}
	for b := range li.blocks {
		for _, in := range b.Instrs {
			switch i := in.(type) {
			case *ssa.Store:
				if !directRoot(i.Addr) {
					if h := e.staticHeapOf(i.Addr); h != "" {
						// the field of the root object the store goes to (outermost FieldAddr), or -1
						f := -1
						for a := i.Addr; ; {
							if fa, ok := a.(*ssa.FieldAddr); ok {
								f = fa.Field
								a = fa.X
								continue
							}
							if ia, ok := a.(*ssa.IndexAddr); ok {
								if _, isSl := ia.X.Type().Underlying().(*types.Slice); isSl {
									f = -1
									break
								}
								a = ia.X
								continue
							}
							break
						}
						mark(h, f)
					}
				}
			case *ssa.MapUpdate:
				mapHeaps(i.Map)
			case *ssa.Call:
				if bi, ok := i.Call.Value.(*ssa.Builtin); ok && (bi.Name() == "delete" || bi.Name() == "clear") && len(i.Call.Args) > 0 {
					mapHeaps(i.Call.Args[0])
				}
			}
		}
	}
	li.indirect = out
	return out
}

func (e *FnEnc) writtenInLoop(li *loopInfo, ref string) bool {
	for _, ts := range li.modRefs {
		for _, t := range ts {
			if t.ref == ref {
				return true
			}
		}
	}
	return false
}

// clearIdiom recognises `for k := range m { delete(m, k) }`: a map-range loop whose body deletes the current key from
// the ranged map.  It returns the map value, the visited-set ghost and the key type.
func (e *FnEnc) clearIdiom(li *loopInfo) (ssa.Value, HeapVar, types.Type) {
	var nx *ssa.Next
	for _, in := range li.header.Instrs {
		if n, ok := in.(*ssa.Next); ok && !n.IsString {
			nx = n
		}
	}
	if nx == nil {
		return nil, HeapVar{}, nil
	}
	rng, ok := nx.Iter.(*ssa.Range)
	if !ok {
		return nil, HeapVar{}, nil
	}
	mt, ok := rng.X.Type().Underlying().(*types.Map)
	if !ok {
		return nil, HeapVar{}, nil
	}
	for b := range li.blocks {
		for _, in := range b.Instrs {
			c, ok := in.(*ssa.Call)
			if !ok {
				continue
			}
			bi, ok := c.Call.Value.(*ssa.Builtin)
			if !ok || bi.Name() != "delete" || !sameMapExpr(c.Call.Args[0], rng.X) {
				continue
			}
			if ex, ok := c.Call.Args[1].(*ssa.Extract); ok && ex.Tuple == nx && ex.Index == 1 {
				hv, ok := e.rangeVis[rng]
				if !ok {
					hv = HeapVar{"VIS." + mangle(rng.Name()), "(Array " + e.sorts().SortOf(mt.Key()) + " Bool)"}
				}
				return rng.X, hv, mt.Key()
			}
		}
	}
	return nil, HeapVar{}, nil
}

func (e *FnEnc) clearInv(st State, m ssa.Value, vis HeapVar, kt types.Type) string {
	mv := e.val(m)
	q := fmt.Sprintf("k!q%d", e.nextQ())
	dom := sx("select", e.heapIn(st, e.sorts().MapDom(kt)), mv.T)
	return fmt.Sprintf("(forall ((%s %s)) (=> (select %s %s) (not (select %s %s))))", q, e.sorts().SortOf(kt), e.heapIn(st, vis), q, dom, q)
}

// sameMapExpr: two SSA values that denote the same map: the same value, or two loads of the same field of the same object.
func sameMapExpr(a, b ssa.Value) bool {
	if a == b {
		return true
	}
	ua, ok1 := a.(*ssa.UnOp)
	ub, ok2 := b.(*ssa.UnOp)
	if !ok1 || !ok2 {
		return false
	}
	fa, ok1 := ua.X.(*ssa.FieldAddr)
	fb, ok2 := ub.X.(*ssa.FieldAddr)
	return ok1 && ok2 && fa.X == fb.X && fa.Field == fb.Field
}

// canonicalCounter: a header phi of integer type that is 0 on every entry edge and itself plus 1 on every back edge.
func canonicalCounter(p *ssa.Phi, li *loopInfo) bool {
	if b, ok := p.Type().Underlying().(*types.Basic); !ok || b.Info()&types.IsInteger == 0 {
		return false
	}
	if p.Comment == "rangeindex" {
		return false
	}
	entries, backs := 0, 0
	for k, pred := range p.Block().Preds {
		x := p.Edges[k]
		if li.blocks[pred] {
			bo, ok := x.(*ssa.BinOp)
			if !ok || bo.Op != token.ADD || bo.X != ssa.Value(p) {
				return false
			}
			c, ok := bo.Y.(*ssa.Const)
			if !ok || c.Value == nil || c.Int64() != 1 {
				return false
			}
			backs++
		} else {
			c, ok := x.(*ssa.Const)
			if !ok || c.Value == nil || c.Int64() != 0 {
				return false
			}
			entries++
		}
	}
	return entries > 0 && backs > 0
}
