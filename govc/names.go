package govc

import (
	"encoding/json"
	"fmt"
	"go/ast"
	"go/token"
	"os"
	"path/filepath"
	"sort"
	"strings"

	"go/types"

	"golang.org/x/tools/go/packages"
	"golang.org/x/tools/go/ssa"
)

// Rename tolerance. Contracts name local variables. A refactoring that only renames locals would make those clauses
// dangle. /verif/lib/locals.json records, for every function under contract, the names its parameters, results and
// local declarations have in source order (function literals count for themselves). When a function's current list
// has the same length but different names, the recorded name at a position is taken to have been renamed to the
// current name at that position, and contract clauses are read through that map. Any change in the number of
// declarations switches the tolerance off for that function (clauses then bind by name only).

// declNames: receiver, parameters, named results, then every identifier introduced in the body, in source order.
func declNames(fn *ssa.Function) []string {
	n, _ := declNamesTypes(fn, nil)
	return n
}

// declNamesTypes also gives each declaration's type (as text; "" when info is nil or has no entry).
func declNamesTypes(fn *ssa.Function, info *types.Info) ([]string, []string) {
	var ft *ast.FuncType
	var body *ast.BlockStmt
	var recv *ast.FieldList
	switch n := fn.Syntax().(type) {
	case *ast.FuncDecl:
		ft, body, recv = n.Type, n.Body, n.Recv
	case *ast.FuncLit:
		ft, body = n.Type, n.Body
	default:
		return nil, nil
	}
	var out, tys []string
	how := "param" // how the declaration gets its first value: disambiguates declarations of one type
	add := func(id *ast.Ident) {
		if id != nil && id.Name != "_" {
			out = append(out, id.Name)
			t := ""
			if info != nil {
				if o := info.Defs[id]; o != nil && o.Type() != nil {
					t = types.TypeString(o.Type(), nil)
				}
			}
			tys = append(tys, t+" <- "+how)
		}
	}
	initOf := func(x ast.Expr) string {
		switch v := x.(type) {
		case *ast.CallExpr:
			switch f := v.Fun.(type) {
			case *ast.Ident:
				return "call " + f.Name
			case *ast.SelectorExpr:
				if q, ok := f.X.(*ast.Ident); ok {
					return "call " + q.Name + "." + f.Sel.Name
				}
				return "call ." + f.Sel.Name
			}
			return "call"
		case *ast.CompositeLit:
			return "literal"
		case *ast.BasicLit:
			return "constant"
		case *ast.IndexExpr:
			return "element"
		case *ast.UnaryExpr:
			if v.Op == token.AND {
				return "address"
			}
			return "unary"
		case *ast.BinaryExpr:
			return "binary " + v.Op.String()
		case *ast.FuncLit:
			return "func"
		case *ast.TypeAssertExpr:
			return "assert"
		case *ast.SelectorExpr:
			return "field " + v.Sel.Name
		case *ast.Ident:
			return "copy"
		}
		return "expr"
	}
	fields := func(fl *ast.FieldList) {
		if fl == nil {
			return
		}
		for _, f := range fl.List {
			for _, n := range f.Names {
				add(n)
			}
		}
	}
	how = "receiver"
	fields(recv)
	if ft != nil {
		how = "param"
		fields(ft.Params)
		how = "result"
		fields(ft.Results)
	}
	if body == nil {
		return out, tys
	}
	ast.Inspect(body, func(n ast.Node) bool {
		switch x := n.(type) {
		case *ast.FuncLit:
			return false
		case *ast.AssignStmt:
			if x.Tok == token.DEFINE {
				for k, l := range x.Lhs {
					if id, ok := l.(*ast.Ident); ok {
						how = "multi"
						if len(x.Rhs) == len(x.Lhs) {
							how = initOf(x.Rhs[k])
						} else if len(x.Rhs) == 1 {
							how = fmt.Sprintf("%s #%d", initOf(x.Rhs[0]), k)
						}
						add(id)
					}
				}
			}
		case *ast.ValueSpec:
			for k, id := range x.Names {
				how = "var"
				if len(x.Values) == len(x.Names) {
					how = initOf(x.Values[k])
				}
				add(id)
			}
		case *ast.RangeStmt:
			if x.Tok == token.DEFINE {
				if id, ok := x.Key.(*ast.Ident); ok {
					how = "element index"
					add(id)
				}
				if id, ok := x.Value.(*ast.Ident); ok {
					how = "element"
					add(id)
				}
			}
		}
		return true
	})
	return out, tys
}

func (w *World) infoFor(fn *ssa.Function) *types.Info {
	for fn.Parent() != nil {
		fn = fn.Parent()
	}
	if fn.Pkg == nil {
		return nil
	}
	var found *types.Info
	packages.Visit(w.Pkgs, func(p *packages.Package) bool {
		if found == nil && p.Types == fn.Pkg.Pkg {
			found = p.TypesInfo
		}
		return found == nil
	}, nil)
	return found
}

// WriteNames regenerates lib/locals.json from the current tree (run on the unchanged tree whenever contracts or the
// functions they speak about change).
func WriteNames(repo, verif string) error {
	pkgs, err := propPackagesAll(repo)
	if err != nil {
		return err
	}
	w, err := LoadWorld(repo, pkgs, verif)
	if err != nil {
		return err
	}
	out := map[string][]string{}
	outT := map[string][]string{}
	for key, fn := range w.funcsByKey {
		if w.ContractFor(fn) == nil || fn.Syntax() == nil {
			continue
		}
		_ = key
		out[fn.String()], outT[fn.String()] = declNamesTypes(fn, w.infoFor(fn))
		for p := fn.Parent(); p != nil; p = p.Parent() {
			if p.Syntax() != nil {
				out[p.String()], outT[p.String()] = declNamesTypes(p, w.infoFor(p)) // captured variables of a function literal are its parents' locals
			}
		}
	}
	keys := make([]string, 0, len(out))
	for k := range out {
		keys = append(keys, k)
	}
	sort.Strings(keys)
	ordered := make([]recRow, 0, len(keys))
	for _, k := range keys {
		ordered = append(ordered, recRow{k, out[k], outT[k]})
	}
	data, _ := json.MarshalIndent(ordered, "", " ")
	fmt.Printf("govc names: %d functions under contract\n", len(ordered))
	return os.WriteFile(filepath.Join(verif, "lib", "locals.json"), data, 0o644)
}

type recRow struct {
	Func  string   `json:"func"`
	Names []string `json:"names"`
	Types []string `json:"types"`
}

func propPackagesAll(repo string) ([]string, error) {
	var pkgs []string
	err := filepath.Walk(repo, func(p string, info os.FileInfo, err error) error {
		if err != nil {
			return nil
		}
		if info.IsDir() && (info.Name() == ".git" || info.Name() == "testdata") {
			return filepath.SkipDir
		}
		if info.Name() == "contracts_verif.go" {
			rel, _ := filepath.Rel(repo, filepath.Dir(p))
			pkgs = append(pkgs, "./"+rel)
		}
		return nil
	})
	sort.Strings(pkgs)
	return pkgs, err
}

// renamesFor: recorded name -> current name for fn, or nil.
//
// The recorded and the current declaration lists are aligned (longest common subsequence, a pair may match only when
// the two declarations have the same type; a pair with the same name counts more than a pair that only agrees on
// the type). A recorded name that no longer exists in the function and is aligned with a name the recording does not
// know is read as renamed. Declarations that were added (an explicit loop counter) or removed stay unaligned.
func (w *World) renamesFor(fn *ssa.Function) map[string]string {
	if w.recNames == nil {
		w.recNames = map[string][]string{}
		w.recTypes = map[string][]string{}
		if data, err := os.ReadFile(filepath.Join(w.VerifDir, "lib", "locals.json")); err == nil {
			var rows []recRow
			if json.Unmarshal(data, &rows) == nil {
				for _, r := range rows {
					w.recNames[r.Func] = r.Names
					w.recTypes[r.Func] = r.Types
				}
			}
		}
	}
	rec, ok := w.recNames[fn.String()]
	if !ok || fn.Syntax() == nil {
		if fn.Parent() != nil {
			return w.renamesFor(fn.Parent()) // a function literal sees the (possibly renamed) locals it captures
		}
		return nil
	}
	recT := w.recTypes[fn.String()]
	cur, curT := declNamesTypes(fn, w.infoFor(fn))
	m := alignNames(rec, recT, cur, curT)
	if fn.Parent() != nil {
		// captured variables are the enclosing function's locals
		for o, n := range w.renamesFor(fn.Parent()) {
			if m == nil {
				m = map[string]string{}
			}
			if _, have := m[o]; !have {
				m[o] = n
			}
		}
	}
	return m
}

func alignNames(rec, recT, cur, curT []string) map[string]string {
	same := len(rec) == len(cur)
	if same {
		for i := range rec {
			if rec[i] != cur[i] {
				same = false
			}
		}
	}
	if same {
		return nil
	}
	curSet, recSet := map[string]bool{}, map[string]bool{}
	for _, n := range cur {
		curSet[n] = true
	}
	for _, n := range rec {
		recSet[n] = true
	}
	typ := func(ts []string, i int) string {
		if i < len(ts) {
			return ts[i]
		}
		return ""
	}
	split := func(s string) (string, string) {
		if k := strings.Index(s, " <- "); k >= 0 {
			return s[:k], s[k+4:]
		}
		return s, ""
	}
	score := func(i, j int) int {
		ti, hi := split(typ(recT, i))
		tj, hj := split(typ(curT, j))
		if ti != tj {
			return -1
		}
		if rec[i] == cur[j] {
			return 8
		}
		if !curSet[rec[i]] && !recSet[cur[j]] {
			if hi == hj {
				return 3 // same type, same kind of initialiser
			}
			return 2
		}
		return -1
	}
	n, k := len(rec), len(cur)
	dp := make([][]int, n+1)
	for i := range dp {
		dp[i] = make([]int, k+1)
	}
	for i := n - 1; i >= 0; i-- {
		for j := k - 1; j >= 0; j-- {
			best := dp[i+1][j]
			if dp[i][j+1] > best {
				best = dp[i][j+1]
			}
			if sc := score(i, j); sc > 0 && dp[i+1][j+1]+sc > best {
				best = dp[i+1][j+1] + sc
			}
			dp[i][j] = best
		}
	}
	var m map[string]string
	i, j := 0, 0
	for i < n && j < k {
		sc := score(i, j)
		switch {
		case sc > 0 && dp[i][j] == dp[i+1][j+1]+sc:
			if rec[i] != cur[j] {
				if m == nil {
					m = map[string]string{}
				}
				if prev, dup := m[rec[i]]; dup && prev != cur[j] {
					return nil // the same recorded name would map to two different names: do not guess
				}
				m[rec[i]] = cur[j]
			}
			i++
			j++
		case dp[i][j] == dp[i+1][j]:
			i++
		default:
			j++
		}
	}
	return m
}
