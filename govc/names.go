package govc

import (
	"encoding/json"
	"fmt"
	"go/ast"
	"go/token"
	"os"
	"path/filepath"
	"sort"

	"golang.org/x/tools/go/ssa"
)

// Rename tolerance. Contracts name local variables. A refactoring that only renames locals would make those clauses
// dangle. /verif/lib/locals.json records, for every function under contract, the names its parameters, results and
// local declarations have in source order (function literals count for themselves). When a function's current list
// has the same length but different names, the recorded name at a position is taken to have been renamed to the
// current name at that position, and contract clauses are read through that map. Any change in the number of
// declarations switches the tolerance off for that function (clauses then bind by name only).

// declNames: receiver, parameters, named results, then every identifier introduced in the body, in source order.
func declNames(fn *ssa.Function) []string {
	var ft *ast.FuncType
	var body *ast.BlockStmt
	var recv *ast.FieldList
	switch n := fn.Syntax().(type) {
	case *ast.FuncDecl:
		ft, body, recv = n.Type, n.Body, n.Recv
	case *ast.FuncLit:
		ft, body = n.Type, n.Body
	default:
		return nil
	}
	var out []string
	add := func(id *ast.Ident) {
		if id != nil && id.Name != "_" {
			out = append(out, id.Name)
		}
	}
	fields := func(fl *ast.FieldList) {
		if fl == nil {
			return
		}
		for _, f := range fl.List {
			for _, n := range f.Names {
				add(n)
			}
		}
	}
	fields(recv)
	if ft != nil {
		fields(ft.Params)
		fields(ft.Results)
	}
	if body == nil {
		return out
	}
	ast.Inspect(body, func(n ast.Node) bool {
		switch x := n.(type) {
		case *ast.FuncLit:
			return false
		case *ast.AssignStmt:
			if x.Tok == token.DEFINE {
				for _, l := range x.Lhs {
					if id, ok := l.(*ast.Ident); ok {
						add(id)
					}
				}
			}
		case *ast.ValueSpec:
			for _, id := range x.Names {
				add(id)
			}
		case *ast.RangeStmt:
			if x.Tok == token.DEFINE {
				if id, ok := x.Key.(*ast.Ident); ok {
					add(id)
				}
				if id, ok := x.Value.(*ast.Ident); ok {
					add(id)
				}
			}
		}
		return true
	})
	return out
}

// WriteNames regenerates lib/locals.json from the current tree (run on the unchanged tree whenever contracts or the
// functions they speak about change).
func WriteNames(repo, verif string) error {
	pkgs, err := propPackagesAll(repo)
	if err != nil {
		return err
	}
	w, err := LoadWorld(repo, pkgs, verif)
	if err != nil {
		return err
	}
	out := map[string][]string{}
	for key, fn := range w.funcsByKey {
		if w.ContractFor(fn) == nil || fn.Syntax() == nil {
			continue
		}
		_ = key
		out[fn.String()] = declNames(fn)
		for p := fn.Parent(); p != nil; p = p.Parent() {
			if p.Syntax() != nil {
				out[p.String()] = declNames(p) // captured variables of a function literal are its parents' locals
			}
		}
	}
	keys := make([]string, 0, len(out))
	for k := range out {
		keys = append(keys, k)
	}
	sort.Strings(keys)
	ordered := make([]struct {
		Func  string   `json:"func"`
		Names []string `json:"names"`
	}, 0, len(keys))
	for _, k := range keys {
		ordered = append(ordered, struct {
			Func  string   `json:"func"`
			Names []string `json:"names"`
		}{k, out[k]})
	}
	data, _ := json.MarshalIndent(ordered, "", " ")
	fmt.Printf("govc names: %d functions under contract\n", len(ordered))
	return os.WriteFile(filepath.Join(verif, "lib", "locals.json"), data, 0o644)
}

func propPackagesAll(repo string) ([]string, error) {
	var pkgs []string
	err := filepath.Walk(repo, func(p string, info os.FileInfo, err error) error {
		if err != nil {
			return nil
		}
		if info.IsDir() && (info.Name() == ".git" || info.Name() == "testdata") {
			return filepath.SkipDir
		}
		if info.Name() == "contracts_verif.go" {
			rel, _ := filepath.Rel(repo, filepath.Dir(p))
			pkgs = append(pkgs, "./"+rel)
		}
		return nil
	})
	sort.Strings(pkgs)
	return pkgs, err
}

// renamesFor: recorded name -> current name for fn, or nil.
func (w *World) renamesFor(fn *ssa.Function) map[string]string {
	if w.recNames == nil {
		w.recNames = map[string][]string{}
		if data, err := os.ReadFile(filepath.Join(w.VerifDir, "lib", "locals.json")); err == nil {
			var rows []struct {
				Func  string   `json:"func"`
				Names []string `json:"names"`
			}
			if json.Unmarshal(data, &rows) == nil {
				for _, r := range rows {
					w.recNames[r.Func] = r.Names
				}
			}
		}
	}
	rec, ok := w.recNames[fn.String()]
	if !ok || fn.Syntax() == nil {
		if fn.Parent() != nil {
			return w.renamesFor(fn.Parent()) // a function literal sees the (possibly renamed) locals it captures
		}
		return nil
	}
	cur := declNames(fn)
	if len(cur) != len(rec) {
		return nil
	}
	curSet := map[string]bool{}
	for _, n := range cur {
		curSet[n] = true
	}
	var m map[string]string
	for i := range rec {
		if rec[i] != cur[i] && !curSet[rec[i]] {
			if m == nil {
				m = map[string]string{}
			}
			if prev, dup := m[rec[i]]; dup && prev != cur[i] {
				return nil // the same recorded name would map to two different names: do not guess
			}
			m[rec[i]] = cur[i]
		}
	}
	if fn.Parent() != nil {
		// captured variables are the enclosing function's locals
		for o, n := range w.renamesFor(fn.Parent()) {
			if m == nil {
				m = map[string]string{}
			}
			if _, have := m[o]; !have {
				m[o] = n
			}
		}
	}
	return m
}
