package govc

import (
	"fmt"
	"os"

	"golang.org/x/tools/go/ssa"
)

// Dump prints the SSA of the named functions of a package (debug aid).
func Dump(pattern string, names []string) {
	w, err := LoadWorld("/repo", []string{pattern}, "/verif")
	if err != nil {
		fmt.Println(err)
		os.Exit(1)
	}
	for key, f := range w.funcsByKey {
		for _, n := range names {
			if funcKeyName(f) == n {
				fmt.Println("##", key)
				f.WriteTo(os.Stdout)
			}
		}
	}
	_ = ssa.GlobalDebug
}
