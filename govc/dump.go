package govc

import (
	"fmt"
	"os"

	"golang.org/x/tools/go/ssa"
)

// Dump prints the SSA of the named functions of a package (debug aid).
func Dump(pattern string, names []string) {
	repo := "/repo"
	if r := os.Getenv("GOVC_REPO"); r != "" {
		repo = r
	}
	w, err := LoadWorld(repo, []string{pattern}, "/verif")
	if err != nil {
		fmt.Println(err)
		os.Exit(1)
	}
	for key, f := range w.funcsByKey {
		for _, n := range names {
			if funcKeyName(f) == n {
				fmt.Println("##", key)
				if os.Getenv("GOVC_LOOPS") != "" {
					e := w.newEnc(f, nil, "")
					e.computeLoops()
					for _, li := range e.loopList {
						pos := ""
						for _, in := range li.header.Instrs {
							if in.Pos().IsValid() {
								pos = w.Prog.Fset.Position(in.Pos()).String()
								break
							}
						}
						if pos == "" && len(li.header.Succs) > 0 {
							for _, in := range li.header.Succs[0].Instrs {
								if in.Pos().IsValid() {
									pos = w.Prog.Fset.Position(in.Pos()).String()
									break
								}
							}
						}
						fmt.Printf("loop %d: header b%d (%s) %s\n", li.ordinal, li.header.Index, li.header.Comment, pos)
					}
					continue
				}
				f.WriteTo(os.Stdout)
			}
		}
	}
	_ = ssa.GlobalDebug
}
