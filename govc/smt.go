package govc

import (
	"fmt"
	"strings"
)

// Prelude declares the fixed sorts and the extended-real float model (DESIGN §3.4).
// A float64 is a value of datatype Flt: finite real, NaN, +Inf or -Inf.  Rounding,
// overflow-to-infinity and signed zero are not modelled (assumption A3).
const Prelude = `
(declare-datatypes ((Flt 0)) (((fin (fr Real)) (fnan) (fpinf) (fninf))))
(declare-datatypes ((Slice 0)) (((mkslice (sref Int) (slen Int)))))
(define-fun f.isnan ((x Flt)) Bool ((_ is fnan) x))
(define-fun f.isfin ((x Flt)) Bool ((_ is fin) x))
(define-fun f.isinf ((x Flt)) Bool (or ((_ is fpinf) x) ((_ is fninf) x)))
(define-fun f.neg ((x Flt)) Flt
  (ite ((_ is fin) x) (fin (- (fr x))) (ite ((_ is fpinf) x) fninf (ite ((_ is fninf) x) fpinf fnan))))
(define-fun f.add ((x Flt) (y Flt)) Flt
  (ite (or ((_ is fnan) x) ((_ is fnan) y)) fnan
  (ite ((_ is fin) x) (ite ((_ is fin) y) (fin (+ (fr x) (fr y))) y)
  (ite ((_ is fin) y) x (ite (= x y) x fnan)))))
(define-fun f.sub ((x Flt) (y Flt)) Flt (f.add x (f.neg y)))
(define-fun f.sgn ((x Flt)) Int
  (ite ((_ is fpinf) x) 1 (ite ((_ is fninf) x) (- 1) (ite ((_ is fin) x) (ite (> (fr x) 0.0) 1 (ite (< (fr x) 0.0) (- 1) 0)) 0))))
(define-fun f.mul ((x Flt) (y Flt)) Flt
  (ite (or ((_ is fnan) x) ((_ is fnan) y)) fnan
  (ite (and ((_ is fin) x) ((_ is fin) y)) (fin (* (fr x) (fr y)))
  (ite (= (* (f.sgn x) (f.sgn y)) 0) fnan (ite (> (* (f.sgn x) (f.sgn y)) 0) fpinf fninf)))))
(define-fun f.div ((x Flt) (y Flt)) Flt
  (ite (or ((_ is fnan) x) ((_ is fnan) y)) fnan
  (ite ((_ is fin) x)
       (ite ((_ is fin) y)
            (ite (= (fr y) 0.0)
                 (ite (= (fr x) 0.0) fnan (ite (> (fr x) 0.0) fpinf fninf))
                 (fin (/ (fr x) (fr y))))
            (fin 0.0))
       (ite ((_ is fin) y)
            (ite (>= (* (f.sgn x) (ite (< (fr y) 0.0) (- 1) 1)) 0) fpinf fninf)
            fnan))))
(define-fun f.lt ((x Flt) (y Flt)) Bool
  (and (not ((_ is fnan) x)) (not ((_ is fnan) y))
       (ite ((_ is fin) x)
            (ite ((_ is fin) y) (< (fr x) (fr y)) ((_ is fpinf) y))
            (ite ((_ is fninf) x) (not ((_ is fninf) y)) false))))
(define-fun f.eq ((x Flt) (y Flt)) Bool (and (not ((_ is fnan) x)) (not ((_ is fnan) y)) (= x y)))
(define-fun f.le ((x Flt) (y Flt)) Bool (or (f.lt x y) (f.eq x y)))
(define-fun f.abs ((x Flt)) Flt
  (ite ((_ is fin) x) (fin (ite (< (fr x) 0.0) (- (fr x)) (fr x))) (ite ((_ is fnan) x) fnan fpinf)))
(define-fun f.ofint ((x Int)) Flt (fin (to_real x)))
(declare-fun f.toint (Flt) Int)
(declare-fun str.lower (String) String)
(declare-fun str.upper (String) String)
(declare-fun str.itoa (Int) String)
(define-fun nilslice () Slice (mkslice 0 0))
`

func sx(op string, args ...string) string {
	if len(args) == 0 {
		return op
	}
	return "(" + op + " " + strings.Join(args, " ") + ")"
}

func and(xs ...string) string {
	var ys []string
	for _, x := range xs {
		if x == "true" || x == "" {
			continue
		}
		if x == "false" {
			return "false"
		}
		ys = append(ys, x)
	}
	switch len(ys) {
	case 0:
		return "true"
	case 1:
		return ys[0]
	}
	return sx("and", ys...)
}

func or(xs ...string) string {
	var ys []string
	for _, x := range xs {
		if x == "false" || x == "" {
			continue
		}
		if x == "true" {
			return "true"
		}
		ys = append(ys, x)
	}
	switch len(ys) {
	case 0:
		return "false"
	case 1:
		return ys[0]
	}
	return sx("or", ys...)
}

func not(x string) string {
	switch x {
	case "true":
		return "false"
	case "false":
		return "true"
	}
	return sx("not", x)
}

func implies(a, b string) string {
	if a == "true" {
		return b
	}
	if b == "true" {
		return "true"
	}
	return sx("=>", a, b)
}

func ite(c, a, b string) string {
	if c == "true" {
		return a
	}
	if c == "false" {
		return b
	}
	if a == b {
		return a
	}
	return sx("ite", c, a, b)
}

func intLit(n int64) string {
	if n < 0 {
		return fmt.Sprintf("(- %d)", -n)
	}
	return fmt.Sprintf("%d", n)
}

// strLit renders a Go byte string as an SMT-LIB 2.6 string literal (one char per byte).
func strLit(s string) string {
	var b strings.Builder
	b.WriteByte('"')
	for i := 0; i < len(s); i++ {
		c := s[i]
		switch {
		case c == '"':
			b.WriteString(`""`)
		case c == '\\':
			b.WriteString(`\u{5c}`)
		case c >= 0x20 && c < 0x7f:
			b.WriteByte(c)
		default:
			fmt.Fprintf(&b, `\u{%x}`, c)
		}
	}
	b.WriteByte('"')
	return b.String()
}

func mangle(s string) string {
	var b strings.Builder
	for _, r := range s {
		switch {
		case r >= 'a' && r <= 'z', r >= 'A' && r <= 'Z', r >= '0' && r <= '9', r == '_', r == '.':
			b.WriteRune(r)
		default:
			b.WriteByte('_')
		}
	}
	return b.String()
}

// sexprSplit returns the top-level elements of "(a b c)"; ok is false if t is not a list.
func sexprSplit(t string) (elems []string, ok bool) {
	t = strings.TrimSpace(t)
	if len(t) < 2 || t[0] != '(' || t[len(t)-1] != ')' {
		return nil, false
	}
	in := t[1 : len(t)-1]
	depth := 0
	start := -1
	inStr := false
	for i := 0; i < len(in); i++ {
		c := in[i]
		if inStr {
			if c == '"' {
				inStr = false
			}
			continue
		}
		switch {
		case c == '"':
			inStr = true
			if start < 0 {
				start = i
			}
		case c == '(':
			if depth == 0 && start < 0 {
				start = i
			}
			depth++
		case c == ')':
			depth--
			if depth < 0 {
				return nil, false
			}
		case c == ' ' || c == '\n' || c == '\t':
			if depth == 0 && start >= 0 {
				elems = append(elems, in[start:i])
				start = -1
			}
		default:
			if start < 0 {
				start = i
			}
		}
	}
	if start >= 0 {
		elems = append(elems, in[start:])
	}
	return elems, depth == 0
}

// splitGoal splits a goal term into separately provable conjuncts.
func splitGoal(t string) []string {
	el, ok := sexprSplit(t)
	if !ok || len(el) == 0 {
		return []string{t}
	}
	switch el[0] {
	case "and":
		var out []string
		for _, x := range el[1:] {
			out = append(out, splitGoal(x)...)
		}
		return out
	case "=>":
		if len(el) == 3 {
			var out []string
			for _, x := range splitGoal(el[2]) {
				out = append(out, "(=> "+el[1]+" "+x+")")
			}
			return out
		}
	case "forall":
		if len(el) == 3 {
			var out []string
			for _, x := range splitGoal(el[2]) {
				out = append(out, "(forall "+el[1]+" "+x+")")
			}
			return out
		}
	}
	return []string{t}
}
