package govc

import (
	"fmt"
	"go/constant"
	"go/types"
	"strings"

	"golang.org/x/tools/go/ssa"
)

// libModels: functions outside /repo with an exact model in the SMT theories used (assumption A6).
var libModels = map[string]func(e *FnEnc, args []Val) string{
	"strings.Contains":   func(e *FnEnc, a []Val) string { return sx("str.contains", a[0].T, a[1].T) },
	"strings.HasPrefix":  func(e *FnEnc, a []Val) string { return sx("str.prefixof", a[1].T, a[0].T) },
	"strings.HasSuffix":  func(e *FnEnc, a []Val) string { return sx("str.suffixof", a[1].T, a[0].T) },
	"strings.ToLower":    func(e *FnEnc, a []Val) string { return sx("str.lower", a[0].T) },
	"strings.ToUpper":    func(e *FnEnc, a []Val) string { return sx("str.upper", a[0].T) },
	"strings.EqualFold":  func(e *FnEnc, a []Val) string { return sx("=", sx("str.lower", a[0].T), sx("str.lower", a[1].T)) },
	"strings.Index":      func(e *FnEnc, a []Val) string { return sx("str.indexof", a[0].T, a[1].T, "0") },
	"strconv.Itoa":       func(e *FnEnc, a []Val) string { return sx("str.itoa", a[0].T) },
	"math.Abs":           func(e *FnEnc, a []Val) string { return sx("f.abs", a[0].T) },
	"math.IsNaN":         func(e *FnEnc, a []Val) string { return sx("f.isnan", a[0].T) },
	"math.IsInf":         func(e *FnEnc, a []Val) string {
		return or(and(sx(">=", a[1].T, "0"), sx("=", a[0].T, "fpinf")), and(sx("<=", a[1].T, "0"), sx("=", a[0].T, "fninf")))
	},
	"strings.TrimSpace": func(e *FnEnc, a []Val) string { return e.W.UF("str.trimspace", []string{"String"}, "String", a[0].T) },
	"strings.Trim":      func(e *FnEnc, a []Val) string { return e.W.UF("str.trim", []string{"String", "String"}, "String", a[0].T, a[1].T) },
	"strings.TrimPrefix": func(e *FnEnc, a []Val) string {
		return ite(sx("str.prefixof", a[1].T, a[0].T), sx("str.substr", a[0].T, sx("str.len", a[1].T), sx("-", sx("str.len", a[0].T), sx("str.len", a[1].T))), a[0].T)
	},
	"strings.TrimSuffix": func(e *FnEnc, a []Val) string {
		return ite(sx("str.suffixof", a[1].T, a[0].T), sx("str.substr", a[0].T, "0", sx("-", sx("str.len", a[0].T), sx("str.len", a[1].T))), a[0].T)
	},
	"path/filepath.Base": func(e *FnEnc, a []Val) string { return e.W.UF("path.base", []string{"String"}, "String", a[0].T) },
	"path/filepath.Dir":  func(e *FnEnc, a []Val) string { return e.W.UF("path.dir", []string{"String"}, "String", a[0].T) },
	"path/filepath.Clean": func(e *FnEnc, a []Val) string { return e.W.UF("path.clean", []string{"String"}, "String", a[0].T) },
	"path/filepath.Ext":  func(e *FnEnc, a []Val) string { return e.W.UF("path.ext", []string{"String"}, "String", a[0].T) },
	"path/filepath.IsAbs": func(e *FnEnc, a []Val) string { return sx("str.prefixof", `"/"`, a[0].T) },
	"unicode/utf8.ValidString": func(e *FnEnc, a []Val) string { return e.W.UF("utf8.valid", []string{"String"}, "Bool", a[0].T) },
	"unicode/utf8.RuneCountInString": func(e *FnEnc, a []Val) string { return e.W.UF("utf8.count", []string{"String"}, "Int", a[0].T) },
}

func calleeName(f *ssa.Function) string {
	if f.Pkg != nil && f.Signature.Recv() == nil {
		return f.Pkg.Pkg.Path() + "." + f.Name()
	}
	return f.String()
}

func (e *FnEnc) call(v ssa.Value, c *ssa.CallCommon, in ssa.Instruction) {
	var args []Val
	for _, a := range c.Args {
		args = append(args, e.val(a))
	}
	if b, ok := c.Value.(*ssa.Builtin); ok {
		e.builtin(v, b, c, args, in)
		return
	}
	if c.IsInvoke() {
		recv := e.val(c.Value)
		key := "invoke:" + types.TypeString(c.Value.Type(), nil) + "." + c.Method.Name()
		if nt, ok := c.Value.Type().(*types.Named); ok && nt.Obj().Pkg() != nil {
			if con := e.W.Contracts.Funcs[nt.Obj().Pkg().Path()+"::interface "+nt.Obj().Name()+"."+c.Method.Name()]; con != nil {
				e.note("interface contract " + con.Name + ": implementations are assumed to satisfy it (behavioural subtyping)")
				e.contractCall(v, con, nil, append([]Val{recv}, args...), c.Signature(), in)
				return
			}
		}
		if con := e.W.Contracts.Funcs["trusted::"+strings.TrimPrefix(key, "invoke:")]; con != nil {
			e.contractCall(v, con, nil, append([]Val{recv}, args...), c.Signature(), in)
			return
		}
		if e.W.IsPure(key) && v != nil {
			e.pureCall(v, key, append([]Val{recv}, args...))
			return
		}
		e.havocCall(v, key, append([]Val{recv}, args...), in)
		return
	}
	f := c.StaticCallee()
	if f == nil && !c.IsInvoke() {
		if gf, ok := e.W.globalInitFunc(c.Value); ok {
			f = gf
			e.note("A12 call through the package-level function variable " + c.Value.(*ssa.UnOp).X.Name() + ", assigned only by its package initialiser: treated as a call of " + calleeName(gf))
		}
	}
	if f != nil {
		name := calleeName(f)
		if mk, ok := c.Value.(*ssa.MakeClosure); ok {
			// direct call of a closure: free variables are bound to the captured cells
			if con := e.W.ContractFor(f); con != nil {
				var all []Val
				for _, b := range mk.Bindings {
					all = append(all, e.val(b))
				}
				e.contractCall(v, con, f, append(all, args...), f.Signature, in)
				return
			}
		}
		if name == "sort.Slice" || name == "sort.SliceStable" || name == "sort.Strings" {
			if e.sortModel(name, c, args, in) {
				return
			}
		}
		if name == "fmt.Errorf" && v != nil {
			x := e.havocVal(v)
			e.assume(not(sx("=", x.T, "0")))
			if t, ok := e.sprintfModel(c, args); ok {
				e.assume(sx("=", e.W.UF("errmsg", []string{"Int"}, "String", x.T), t))
			}
			e.note("A7 trusted contract: fmt.Errorf returns a non-nil error whose message is the formatted string")
			return
		}
		if name == "path/filepath.Join" && v != nil {
			if elems, ok := varargsElems(c.Args[0]); ok && len(elems) >= 1 {
				t := e.val(elems[0]).T
				for _, el := range elems[1:] {
					t = e.W.UF("spec.joinPath", []string{"String", "String"}, "String", t, e.val(el).T)
				}
				if len(elems) == 1 {
					t = e.W.UF("path.clean", []string{"String"}, "String", t)
				}
				e.setVal(v, t)
				e.note("A6 library model: filepath.Join as the uninterpreted joinPath (left-nested)")
				return
			}
		}
		if name == "fmt.Sprintf" && v != nil {
			if t, ok := e.sprintfModel(c, args); ok {
				e.setVal(v, t)
				e.note("A6 exact library model: fmt.Sprintf with a constant format (verbs other than %s/%d on strings/ints are uninterpreted)")
				return
			}
		}
		if m, ok := libModels[name]; ok {
			t := m(e, args)
			if v != nil {
				x := e.setVal(v, t)
				e.assumeValid(x)
				e.libFacts(name, x, args)
			}
			e.note("A6 exact library model: " + name)
			return
		}
		if con := e.W.ContractFor(f); con != nil {
			e.ownedArgsCheck(c, f, con, in)
			e.contractCall(v, con, f, args, f.Signature, in)
			return
		}
		if e.W.IsPure(name) {
			e.pureCall(v, name, args)
			return
		}
		if inModule(f) && f.Blocks != nil && !e.W.NoHeapEffect(name) {
			if e.inlinable(f) {
				e.inlineCall(v, f, args)
				return
			}
			// a module function without a contract: its inferred write set instead of "everything"
			e.havocEffects(e.W.EffectsOf(f), name, args...)
			if v != nil {
				e.havocVal(v)
			}
			return
		}
		e.havocCall(v, name, args, in)
		return
	}
	// dynamic call through a function value
	if mk := e.closureOf(c.Value); mk != nil {
		f := mk.Fn.(*ssa.Function)
		if con := e.W.ContractFor(f); con != nil {
			var all []Val
			for _, b := range mk.Bindings {
				all = append(all, e.val(b))
			}
			e.contractCall(v, con, f, append(all, args...), f.Signature, in)
			return
		}
	}
	e.havocCall(v, "dynamic call "+c.Value.Name(), args, in)
}

func (e *FnEnc) closureOf(v ssa.Value) *ssa.MakeClosure {
	if mk, ok := v.(*ssa.MakeClosure); ok {
		return mk
	}
	return nil
}

func (e *FnEnc) libFacts(name string, r Val, a []Val) {
	switch name {
	case "strings.ToLower", "strings.ToUpper":
		e.assume(sx("=", sx("str.len", r.T), sx("str.len", a[0].T)))
	case "strings.Index":
		e.assume(sx("=", sx(">=", r.T, "0"), sx("str.contains", a[0].T, a[1].T)))
	case "strings.TrimSpace", "strings.Trim":
		e.assume(sx("str.contains", a[0].T, r.T))
	case "unicode/utf8.RuneCountInString":
		e.assume(and(sx(">=", r.T, "0"), sx("<=", r.T, sx("str.len", a[0].T))))
	}
}

func (e *FnEnc) pureCall(v ssa.Value, name string, args []Val) {
	if v == nil {
		return
	}
	if _, isTup := v.Type().(*types.Tuple); isTup {
		e.havocVal(v)
		return
	}
	var sorts, ts []string
	for _, a := range args {
		if a.T == "" && a.Loc != nil {
			// the address of a field or element: give it its integer identity
			env := e.specEnv(e.cur, e.initState, nil)
			a = env.addrOf(a)
		}
		if a.T == "" {
			e.havocVal(v)
			return
		}
		sorts = append(sorts, e.sorts().SortOf(a.Ty))
		ts = append(ts, a.T)
	}
	e.W.pureResultSort[name] = e.sorts().SortOf(v.Type())
	e.W.pureResultType[name] = v.Type()
	x := e.setVal(v, e.W.UF("pure."+mangle(name), sorts, e.sorts().SortOf(v.Type()), ts...))
	e.assumeValid(x)
	e.note("A6 pure function (uninterpreted): " + name)
}

func (e *FnEnc) builtin(v ssa.Value, b *ssa.Builtin, c *ssa.CallCommon, args []Val, in ssa.Instruction) {
	s := e.sorts()
	switch b.Name() {
	case "len":
		switch u := c.Args[0].Type().Underlying().(type) {
		case *types.Slice:
			e.setVal(v, sx("slen", args[0].T))
		case *types.Basic:
			e.setVal(v, sx("str.len", args[0].T))
		case *types.Map:
			e.setVal(v, e.mapLenIn(e.cur, u.Key(), args[0].T))
		case *types.Array:
			e.setVal(v, fmt.Sprint(u.Len()))
		case *types.Pointer:
			e.setVal(v, fmt.Sprint(u.Elem().Underlying().(*types.Array).Len()))
		default:
			x := e.havocVal(v)
			e.assume(sx(">=", x.T, "0"))
		}
	case "cap":
		x := e.havocVal(v)
		if _, ok := c.Args[0].Type().Underlying().(*types.Slice); ok {
			e.assume(sx(">=", x.T, sx("slen", args[0].T)))
		}
	case "append":
		e.appendBuiltin(v, c, args)
	case "delete":
		mt := c.Args[0].Type().Underlying().(*types.Map)
		e.mapDelete(mt, args[0].T, args[1].T)
	case "min", "max":
		op := "<="
		if b.Name() == "max" {
			op = ">="
		}
		t := args[0].T
		for _, a := range args[1:] {
			if isFloat(a.Ty) {
				e.havocVal(v)
				return
			}
			if isString(a.Ty) {
				o := "str.<="
				if b.Name() == "max" {
					t = ite(sx(o, a.T, t), t, a.T)
				} else {
					t = ite(sx(o, t, a.T), t, a.T)
				}
				continue
			}
			t = ite(sx(op, t, a.T), t, a.T)
		}
		e.setVal(v, t)
	case "copy":
		dst, src := args[0], args[1]
		st := c.Args[0].Type().Underlying().(*types.Slice)
		h := s.ArrHeap(st.Elem())
		es := s.SortOf(st.Elem())
		var srcRow, srcLen string
		if isString(c.Args[1].Type()) {
			srcLen = sx("str.len", src.T)
			srcRow = e.W.UF("str.bytes", []string{"String"}, "(Array Int Int)", src.T)
			e.emit(fmt.Sprintf("(assert (forall ((i!q Int)) (! (=> (and (<= 0 i!q) (< i!q (str.len %s))) (= (select %s i!q) (str.to_code (str.at %s i!q)))) :pattern ((select %s i!q)))))", src.T, srcRow, src.T, srcRow))
		} else {
			srcLen = sx("slen", src.T)
			srcRow = sx("select", e.heap(h), sx("sref", src.T))
		}
		srcN := e.declareEq("copy.src", "(Array Int "+es+")", srcRow)
		oldN := e.declareEq("copy.old", "(Array Int "+es+")", sx("select", e.heap(h), sx("sref", dst.T)))
		n := e.define("copy.n", "Int", ite(sx("<=", sx("slen", dst.T), srcLen), sx("slen", dst.T), srcLen))
		na := e.declare("copy.new", "(Array Int "+es+")")
		e.emit(fmt.Sprintf("(assert (forall ((i!q Int)) (! (= (select %s i!q) (ite (and (<= 0 i!q) (< i!q %s)) (select %s i!q) (select %s i!q))) :pattern ((select %s i!q)))))", na, n, srcN, oldN, na))
		e.setHeap(h, ite(sx("=", sx("sref", dst.T), "0"), e.heap(h), sx("store", e.heap(h), sx("sref", dst.T), na)))
		if v != nil {
			e.setVal(v, n)
		}
	case "print", "println":
	case "panic":
	case "recover":
		e.havocVal(v)
	case "clear":
		e.abstract("clear builtin")
		e.havocAll("clear")
	default:
		if v != nil {
			e.havocVal(v)
		}
	}
}

// appendBuiltin models append(s, t...) as producing a fresh backing array (assumption A4).
func (e *FnEnc) appendBuiltin(v ssa.Value, c *ssa.CallCommon, args []Val) {
	s := e.sorts()
	st, _ := c.Args[0].Type().Underlying().(*types.Slice)
	if st == nil {
		e.havocVal(v)
		return
	}
	h := s.ArrHeap(st.Elem())
	es := s.SortOf(st.Elem())
	x := args[0]
	base := e.define("arr", "(Array Int "+es+")", sx("select", e.heap(h), sx("sref", x.T)))
	n := -1
	var srcArr, srcLen string
	if isString(c.Args[1].Type()) {
		str := args[1].T
		srcLen = sx("str.len", str)
		srcArr = e.W.UF("str.bytes", []string{"String"}, "(Array Int Int)", str)
		e.emit(fmt.Sprintf("(assert (forall ((i!q Int)) (! (=> (and (<= 0 i!q) (< i!q (str.len %s))) (= (select %s i!q) (str.to_code (str.at %s i!q)))) :pattern ((select %s i!q)))))", str, srcArr, str, srcArr))
	} else {
		y := args[1]
		srcLen = sx("slen", y.T)
		srcArr = sx("select", e.heap(h), sx("sref", y.T))
		// varargs idiom: slice t[:] of new [N]T
		if sl, ok := c.Args[1].(*ssa.Slice); ok {
			if al, ok := sl.X.(*ssa.Alloc); ok && sl.Low == nil && sl.High == nil {
				if at, ok := al.Type().Underlying().(*types.Pointer).Elem().Underlying().(*types.Array); ok {
					n = int(at.Len())
				}
			}
		}
		if cst, ok := c.Args[1].(*ssa.Const); ok && cst.IsNil() {
			n = 0
		}
	}
	r := e.newRef()
	var na string
	if n >= 0 && n <= 8 {
		na = base
		for k := 0; k < n; k++ {
			na = sx("store", na, sx("+", sx("slen", x.T), fmt.Sprint(k)), sx("select", srcArr, fmt.Sprint(k)))
		}
		srcLen = fmt.Sprint(n)
	} else {
		src := e.declareEq("arr", "(Array Int "+es+")", srcArr)
		na = e.declare("arr", "(Array Int "+es+")")
		// when the first operand is a slice literal of known length, state the copied prefix element by element
		if sl, ok := c.Args[0].(*ssa.Slice); ok && sl.Low == nil && sl.High == nil {
			if al, ok := sl.X.(*ssa.Alloc); ok {
				if at, ok := al.Type().Underlying().(*types.Pointer).Elem().Underlying().(*types.Array); ok && at.Len() <= 16 {
					for k := int64(0); k < at.Len(); k++ {
						e.assume(sx("=", sx("select", na, fmt.Sprint(k)), sx("select", base, fmt.Sprint(k))))
					}
				}
			}
		}
		e.emit(fmt.Sprintf("(assert (forall ((i!q Int)) (! (=> (and (<= 0 i!q) (< i!q (slen %s))) (= (select %s i!q) (select %s i!q))) :pattern ((select %s i!q)))))", x.T, na, base, na))
		e.emit(fmt.Sprintf("(assert (forall ((i!q Int)) (! (=> (and (<= 0 i!q) (< i!q %s)) (= (select %s (+ (slen %s) i!q)) (select %s i!q))) :pattern ((select %s i!q)))))", srcLen, na, x.T, src, src))
	}
	e.setHeap(h, sx("store", e.heap(h), r, na))
	e.setVal(v, sx("mkslice", r, sx("+", sx("slen", x.T), srcLen)))
	if n >= 1 && n <= 8 {
		// consequences of the definition, stated to give the solvers ground terms to instantiate quantifiers with
		for k := 0; k < n; k++ {
			e.assume(sx("=", sx("select", sx("select", e.heap(h), r), sx("+", sx("slen", x.T), fmt.Sprint(k))), sx("select", srcArr, fmt.Sprint(k))))
		}
	}
	e.note("A4: append returns a fresh backing array")
}

// havocAll: an unknown computation may change every heap cell except non-escaped locals (A8).
func (e *FnEnc) havocAll(why string, args ...Val) {
	// a callee that is handed a slice may reorder or overwrite its elements, whatever they are
	given := map[string]bool{}
	passed := map[string]bool{}
	for _, a := range args {
		if a.T != "" {
			passed[a.T] = true
		}
		if a.Ty != nil {
			if st, ok := a.Ty.Underlying().(*types.Slice); ok {
				given[e.sorts().ArrHeap(st.Elem()).Name] = true
			}
		}
	}
	for _, name := range sortedKeys(e.heapVars) {
		hv := e.heapVars[name]
		if name == AllocVar.Name || strings.HasPrefix(name, "VIS.") || strings.HasPrefix(name, "POS.") || strings.HasPrefix(name, "GH.") {
			continue
		}
		if immutableHeap(name) && !given[name] {
			continue
		}
		old := e.heap(hv)
		nw := e.havocHeap(hv)
		for _, l := range e.locals {
			if passed[l.ref] {
				continue // handed to this very call (an owned position): the callee may change it
			}
			if l.heap == name && !l.esc.escapedAt(e.curBlock, e.curIdx) {
				e.assume(sx("=", sx("select", nw, l.ref), sx("select", old, l.ref)))
			}
		}
	}
	oa := e.alloc()
	na := e.declare("alloc", "Int")
	e.cur[AllocVar.Name] = na
	e.assume(sx(">=", na, oa))
}

func (e *FnEnc) havocCall(v ssa.Value, name string, args []Val, in ssa.Instruction) {
	if !e.W.NoHeapEffect(name) {
		e.note("havoc (unknown callee: result and all escaped heap cells unconstrained): " + name)
		e.havocAll(name, args...)
	} else {
		e.note("A6 library call assumed not to modify existing objects (result unconstrained): " + name)
	}
	if v != nil {
		e.havocVal(v)
	}
}

func (e *FnEnc) makeClosure(i *ssa.MakeClosure) {
	r := e.newRef()
	e.vals[i] = Val{T: r, Ty: i.Type()}
}

func (e *FnEnc) deferInstr(i *ssa.Defer) {
	e.defers = append(e.defers, deferred{i, e.curGuard})
	if e.inLoop(e.curBlock) {
		e.abstract("defer inside a loop")
	}
}

type deferred struct {
	d     *ssa.Defer
	guard string
}

func (e *FnEnc) inLoop(b *ssa.BasicBlock) bool {
	for _, l := range e.loopList {
		if l.blocks[b] {
			return true
		}
	}
	return false
}

// runDefers replays deferred calls in LIFO order, each under the guard of its Defer instruction.
func (e *FnEnc) runDefers() {
	saved := e.curGuard
	for k := len(e.defers) - 1; k >= 0; k-- {
		d := e.defers[k]
		// the deferred call runs only on paths where the defer statement executed
		pre := copyState(e.cur)
		e.curGuard = and(saved, d.guard)
		e.applyCallAsserts(&d.d.Call, d.d)
		e.call(nil, &d.d.Call, d.d)
		e.applyCallUpdates(nil, &d.d.Call)
		// merge: state changes apply only under d.guard
		for _, name := range sortedKeys(e.cur) {
			if e.cur[name] != pre[name] {
				old, ok := pre[name]
				if !ok {
					old = name + "@0"
				}
				hv := e.heapVars[name]
				e.cur[name] = e.define(name, hv.Sort, ite(d.guard, e.cur[name], old))
			}
		}
	}
	e.curGuard = saved
}

// varargsElems recovers the elements of a variadic argument built with go/ssa's "new [N]T (varargs)" idiom.
func varargsElems(v ssa.Value) ([]ssa.Value, bool) {
	if c, ok := v.(*ssa.Const); ok && c.IsNil() {
		return nil, true
	}
	sl, ok := v.(*ssa.Slice)
	if !ok {
		return nil, false
	}
	al, ok := sl.X.(*ssa.Alloc)
	if !ok || al.Referrers() == nil {
		return nil, false
	}
	at, ok := al.Type().Underlying().(*types.Pointer).Elem().Underlying().(*types.Array)
	if !ok {
		return nil, false
	}
	out := make([]ssa.Value, at.Len())
	for _, r := range *al.Referrers() {
		ia, ok := r.(*ssa.IndexAddr)
		if !ok {
			continue
		}
		k, ok := ia.Index.(*ssa.Const)
		if !ok || ia.Referrers() == nil {
			return nil, false
		}
		for _, rr := range *ia.Referrers() {
			if st, ok := rr.(*ssa.Store); ok && st.Addr == ia {
				out[k.Int64()] = st.Val
			}
		}
	}
	for _, o := range out {
		if o == nil {
			return nil, false
		}
	}
	return out, true
}

func (e *FnEnc) sprintfModel(c *ssa.CallCommon, args []Val) (string, bool) {
	fc, ok := c.Args[0].(*ssa.Const)
	if !ok || len(c.Args) < 2 {
		return "", false
	}
	elems, ok := varargsElems(c.Args[1])
	if !ok {
		return "", false
	}
	format := constant.StringVal(fc.Value)
	var parts []string
	lit := ""
	k := 0
	for i := 0; i < len(format); i++ {
		if format[i] != '%' {
			lit += string(format[i])
			continue
		}
		if i+1 < len(format) && format[i+1] == '%' {
			lit += "%"
			i++
			continue
		}
		j := i + 1
		for j < len(format) && strings.ContainsRune("+-# 0123456789.", rune(format[j])) {
			j++
		}
		if j >= len(format) || k >= len(elems) {
			return "", false
		}
		verb := format[i : j+1]
		if lit != "" {
			parts = append(parts, strLit(lit))
			lit = ""
		}
		el := elems[k]
		k++
		var inner ssa.Value = el
		if mi, ok := el.(*ssa.MakeInterface); ok {
			inner = mi.X
		}
		iv := e.val(inner)
		switch {
		case verb == "%s" && isString(inner.Type()):
			parts = append(parts, iv.T)
		case (verb == "%s" || verb == "%v") && isByteSlice(inner.Type()) && iv.T != "":
			if lit, ok := e.W.globalInitString(inner); ok {
				parts = append(parts, strLit(lit))
			} else {
				row := sx("select", e.heap(e.sorts().ArrHeap(types.Typ[types.Uint8])), sx("sref", iv.T))
				parts = append(parts, e.W.UF("str.ofbytes", []string{"(Array Int Int)", "Int"}, "String", row, sx("slen", iv.T)))
			}
		case verb == "%d" && isInteger(inner.Type()):
			parts = append(parts, sx("str.itoa", iv.T))
		case iv.T != "" && (verb == "%v" || verb == "%s") && isString(inner.Type()):
			parts = append(parts, iv.T)
		default:
			if iv.T == "" {
				return "", false
			}
			parts = append(parts, e.W.UF("fmt."+mangle(verb)+"."+sortID(e.sorts().SortOf(inner.Type())), []string{e.sorts().SortOf(inner.Type())}, "String", iv.T))
		}
		i = j
	}
	if lit != "" {
		parts = append(parts, strLit(lit))
	}
	switch len(parts) {
	case 0:
		return `""`, true
	case 1:
		return parts[0], true
	}
	return sx("str.++", parts...), true
}

// sortModel: trusted contract of sort.Slice / SliceStable / Strings (A7).  The backing array is replaced by a
// permutation of itself (witnessed by an index bijection) that is ordered by the comparator.  The comparator of
// Slice/SliceStable is the closure's own contract, which must have a clause "ensures result == E(i, j)"; the
// strict-weak-order precondition of the sort is generated as obligations over the elements being sorted.
func (e *FnEnc) sortModel(name string, c *ssa.CallCommon, args []Val, in ssa.Instruction) bool {
	s := e.sorts()
	var slice Val
	var sliceTy *types.Slice
	if name == "sort.Strings" {
		slice = args[0]
		sliceTy = c.Args[0].Type().Underlying().(*types.Slice)
	} else {
		mi, ok := c.Args[0].(*ssa.MakeInterface)
		if !ok {
			return false
		}
		st, ok := mi.X.Type().Underlying().(*types.Slice)
		if !ok {
			return false
		}
		slice = e.val(mi.X)
		sliceTy = st
	}
	h := s.ArrHeap(sliceTy.Elem())
	es := s.SortOf(sliceTy.Elem())
	ref, n := sx("sref", slice.T), sx("slen", slice.T)
	oldH := e.heap(h)
	oldArr := e.declareEq("sort.old", "(Array Int "+es+")", sx("select", oldH, ref))
	newArr := e.declare("sort.new", "(Array Int "+es+")")
	pi := e.declare("sort.pi", "(Array Int Int)")
	pinv := e.declare("sort.pinv", "(Array Int Int)")
	e.setHeap(h, ite(sx("=", ref, "0"), oldH, sx("store", oldH, ref, newArr)))
	inr := func(x string) string { return and(sx("<=", "0", x), sx("<", x, n)) }
	e.assume(fmt.Sprintf("(forall ((i!s Int)) (! (=> %s (and %s (= (select %s i!s) (select %s (select %s i!s))) (= (select %s (select %s i!s)) i!s))) :pattern ((select %s i!s))))",
		inr("i!s"), inr(sx("select", pi, "i!s")), newArr, oldArr, pi, pinv, pi, newArr))
	e.assume(fmt.Sprintf("(forall ((j!s Int)) (! (=> %s (and %s (= (select %s (select %s j!s)) j!s) (= (select %s (select %s j!s)) (select %s j!s)))) :pattern ((select %s j!s)) :pattern ((select %s j!s))))",
		inr("j!s"), inr(sx("select", pinv, "j!s")), pi, pinv, newArr, pinv, oldArr, oldArr, pinv))
	// a function may name the inverse permutation of its (last) sort through a ghost variable called sortinv
	if hv, ok := e.ghosts["sortinv"]; ok && hv.Sort == "(Array Int Int)" {
		e.setHeap(hv, pinv)
	}
	e.note("A7 trusted contract: " + name + " (result is a permutation of the input, ordered by the comparator; requires a strict weak order)")
	if name == "sort.Strings" {
		e.assume(fmt.Sprintf("(forall ((i!s Int) (j!s Int)) (=> (and (<= 0 i!s) (< i!s j!s) (< j!s %s)) (str.<= (select %s i!s) (select %s j!s))))", n, newArr, newArr))
		return true
	}
	mk := e.closureOf(c.Args[1])
	if mk == nil {
		e.abstract(name + " with a comparator that is not a function literal")
		return true
	}
	fn := mk.Fn.(*ssa.Function)
	con := e.W.ContractFor(fn)
	var lessExpr Expr
	if con != nil {
		for _, cl := range con.Ensures {
			if b, ok := cl.Expr.(*EBinary); ok && (b.Op == "==" || b.Op == "<==>") {
				if id, ok := b.X.(*EIdent); ok && id.Name == "result" {
					lessExpr = b.Y
				}
			}
		}
	}
	var free []Val
	for _, b := range mk.Bindings {
		free = append(free, e.val(b))
	}
	derived := false
	if lessExpr == nil {
		// no contract on the comparator: read its body as a term (loop-free literals only)
		if _, ok := e.pureEval(fn, e.cur, []Val{{T: "a!s", Ty: tInt}, {T: "b!s", Ty: tInt}}, free); !ok {
			e.abstract(name + ": comparator has no contract of the form 'ensures result == E' and its body is not a closed term")
			return true
		}
		derived = true
		e.note("comparator of " + name + " read from its body (no contract on the literal)")
	} else {
		e.calleeUsed[con.Pkg+"::"+con.Name] = true
	}
	less := func(st State, a, b string) (string, error) {
		if derived {
			t, ok := e.pureEval(fn, st, []Val{{T: a, Ty: tInt}, {T: b, Ty: tInt}}, free)
			if !ok {
				return "", fmt.Errorf("comparator body is not a closed term")
			}
			return t, nil
		}
		env := &Env{e: e, st: st, old: st, vars: map[string]Val{}, guard: e.curGuard}
		if fn.Parent() != nil && fn.Parent().Pkg != nil {
			env.pkg = fn.Parent().Pkg.Pkg
		}
		for k, fv := range fn.FreeVars {
			env.vars[fv.Name()] = free[k]
		}
		env.vars[fn.Params[0].Name()] = Val{T: a, Ty: tInt}
		env.vars[fn.Params[1].Name()] = Val{T: b, Ty: tInt}
		v, err := env.EvalVal(lessExpr)
		return v.T, err
	}
	pre := copyState(e.cur)
	pre[h.Name] = oldH
	// strict weak order over the elements being sorted (pre-state)
	lab, err := less(pre, "a!s", "b!s")
	if err != nil {
		e.bindFail("sort.less", err.Error())
		return true
	}
	lba, _ := less(pre, "b!s", "a!s")
	lbc, _ := less(pre, "b!s", "c!s")
	lac, _ := less(pre, "a!s", "c!s")
	lcb, _ := less(pre, "c!s", "b!s")
	lca, _ := less(pre, "c!s", "a!s")
	laa, _ := less(pre, "a!s", "a!s")
	rng := and(inr("a!s"), inr("b!s"), inr("c!s"))
	pos := e.posOf(in)
	e.oblige(&Obligation{Name: "call.sort.less.irreflexive@" + pos, Kind: "pre", Clause: "comparator is irreflexive on the elements sorted", Guard: e.curGuard,
		Goal: fmt.Sprintf("(forall ((a!s Int)) (=> %s (not %s)))", inr("a!s"), laa), Pos: pos})
	e.oblige(&Obligation{Name: "call.sort.less.transitive@" + pos, Kind: "pre", Clause: "comparator is transitive on the elements sorted", Guard: e.curGuard,
		Goal: fmt.Sprintf("(forall ((a!s Int) (b!s Int) (c!s Int)) (=> (and %s %s %s) %s))", rng, lab, lbc, lac), Pos: pos})
	e.oblige(&Obligation{Name: "call.sort.less.incomparability-transitive@" + pos, Kind: "pre", Clause: "incomparability under the comparator is transitive (strict weak order)", Guard: e.curGuard,
		Goal: fmt.Sprintf("(forall ((a!s Int) (b!s Int) (c!s Int)) (=> (and %s (not %s) (not %s) (not %s) (not %s)) (and (not %s) (not %s))))", rng, lab, lba, lbc, lcb, lac, lca), Pos: pos})
	// sortedness in the post-state
	lji, err := less(e.cur, "j!s", "i!s")
	if err == nil {
		e.assume(fmt.Sprintf("(forall ((i!s Int) (j!s Int)) (=> (and (<= 0 i!s) (< i!s j!s) (< j!s %s)) (not %s)))", n, lji))
	}
	return true
}

// applyCallUpdates runs the "call NAME update G = expr" clauses of the current contract after a call to NAME.
func (e *FnEnc) applyCallUpdates(v ssa.Value, c *ssa.CallCommon) {
	if e.con == nil || len(e.con.CallUpdates) == 0 {
		return
	}
	names := callNames(c)
	var todo []CallUpdate
	for _, u := range e.con.CallUpdates {
		if names[u.Callee] {
			todo = append(todo, u)
		}
	}
	if len(todo) == 0 {
		return
	}
	env := e.specEnv(e.cur, e.initState, nil)
	env.site = e.curBlock
	if v != nil {
		if rv, ok := e.vals[v]; ok {
			if rv.Tup != nil {
				for k, x := range rv.Tup {
					env.vars[fmt.Sprintf("result%d", k)] = x
				}
				env.vars["result"] = rv
			} else {
				env.vars["result"] = rv
				env.vars["result0"] = rv
			}
		}
	}
	for k, a := range c.Args {
		env.vars[fmt.Sprintf("a%d", k)] = e.val(a)
	}
	newVals := map[string]string{}
	for _, u := range todo {
		hv, ok := e.ghosts[u.Name]
		if !ok {
			e.bindFail("call update "+u.Name, "no such ghost variable")
			continue
		}
		x, err := env.EvalVal(u.Expr)
		if err != nil {
			e.bindFail("call."+mangle(u.Callee)+".update."+u.Name, err.Error()+" in "+u.Src)
			continue
		}
		newVals[hv.Name] = e.define(hv.Name, hv.Sort, x.T)
	}
	for k, nv := range newVals {
		e.cur[k] = nv
	}
}

// callNames: the names a "call NAME update" clause may use for the callee of c.
func callNames(c *ssa.CallCommon) map[string]bool {
	names := map[string]bool{}
	if f := c.StaticCallee(); f != nil {
		names[calleeName(f)] = true
		names[funcKeyName(f)] = true
		names[f.Name()] = true
		if f.Pkg != nil {
			names[f.Pkg.Pkg.Name()+"."+f.Name()] = true
		}
	} else if c.IsInvoke() {
		names[c.Method.Name()] = true
		names[types.TypeString(c.Value.Type(), nil)+"."+c.Method.Name()] = true
	} else {
		names[c.Value.Name()] = true
		if g, ok := c.Value.(*ssa.UnOp); ok {
			if gl, ok := g.X.(*ssa.Global); ok {
				names[gl.Name()] = true
			}
		}
	}
	return names
}

// globalWrites: the package-level variables of the module that the function may write, transitively through static
// calls to module functions and the function literals they contain: stores through the variable, updates of a map or
// calls of a method on an object held in (or addressed through) the variable. Value: where.
func (w *World) globalWrites(f *ssa.Function) map[string]string {
	out := map[string]string{}
	rootGlobal := func(v ssa.Value) *ssa.Global {
		for depth := 0; depth < 16; depth++ {
			switch a := v.(type) {
			case *ssa.Global:
				return a
			case *ssa.FieldAddr:
				v = a.X
			case *ssa.IndexAddr:
				v = a.X
			case *ssa.UnOp:
				v = a.X
			case *ssa.Field:
				v = a.X
			default:
				return nil
			}
		}
		return nil
	}
	note := func(g *ssa.Global, in ssa.Instruction) {
		if g == nil || g.Pkg == nil || !strings.HasPrefix(g.Pkg.Pkg.Path(), ModulePath) {
			return
		}
		name := g.Name()
		if _, ok := out[name]; !ok {
			pos := ""
			if in.Parent() != nil {
				pos = in.Parent().Prog.Fset.Position(in.Pos()).String()
			}
			out[name] = pos
		}
	}
	seen := map[*ssa.Function]bool{}
	var walk func(g *ssa.Function)
	walk = func(g *ssa.Function) {
		if g == nil || seen[g] || g.Blocks == nil {
			return
		}
		pk := g.Pkg
		if pk == nil && g.Parent() != nil {
			pk = g.Parent().Pkg
		}
		if pk == nil || !strings.HasPrefix(pk.Pkg.Path(), ModulePath) {
			return
		}
		seen[g] = true
		for _, b := range g.Blocks {
			for _, in := range b.Instrs {
				switch i := in.(type) {
				case *ssa.Store:
					note(rootGlobal(i.Addr), in)
				case *ssa.MapUpdate:
					note(rootGlobal(i.Map), in)
				case ssa.CallInstruction:
					cc := i.Common()
					if bi, ok := cc.Value.(*ssa.Builtin); ok {
						if bi.Name() == "delete" || bi.Name() == "clear" {
							note(rootGlobal(cc.Args[0]), in)
						}
						continue
					}
					if cc.IsInvoke() {
						note(rootGlobal(cc.Value), in)
					} else if sf := cc.StaticCallee(); sf != nil && sf.Signature.Recv() != nil && len(cc.Args) > 0 {
						note(rootGlobal(cc.Args[0]), in)
					}
					walk(cc.StaticCallee())
				case *ssa.MakeClosure:
					if lf, ok := i.Fn.(*ssa.Function); ok {
						walk(lf)
					}
				}
			}
		}
	}
	walk(f)
	return out
}

// ownedArgsCheck: an argument passed for an "owned" parameter must itself be reachable only through the value passed:
// a local object that does not escape (other than into owned positions) or an owned parameter of the caller.
func (e *FnEnc) ownedArgsCheck(c *ssa.CallCommon, f *ssa.Function, con *FuncContract, in ssa.Instruction) {
	for _, o := range con.Owned {
		for k, p := range f.Params {
			if p.Name() != o || k >= len(c.Args) {
				continue
			}
			ok := false
			switch a := c.Args[k].(type) {
			case *ssa.Alloc:
				ok = !e.escapes(a)
			case *ssa.MakeMap:
				ok = !e.mapEscapes(a)
			case *ssa.Parameter:
				if e.con != nil {
					for _, mine := range e.con.Owned {
						if mine == a.Name() && !e.valueEscapes(a) {
							ok = true
						}
					}
				}
			}
			if !ok {
				e.oblige(&Obligation{Name: fmt.Sprintf("call.%s.owned.%s@%s", mangle(calleeName(f)), o, e.posOf(in)), Kind: "protocol",
					Clause: "the argument for owned parameter " + o + " is a local object that does not escape, or an owned parameter", Guard: e.curGuard, Goal: "false", Pos: e.posOf(in)})
			}
		}
	}
}

// reachNames: the names of every function that may be called, transitively through static calls to functions of
// this module (and the function literals they contain), below the call c. Dynamic calls are not followed.
func (w *World) reachNames(c *ssa.CallCommon, from *ssa.Function) map[string]bool {
	out := map[string]bool{}
	f := c.StaticCallee()
	if f == nil {
		// a call of a function literal bound to a local: follow the literal
		if mc, ok := c.Value.(*ssa.MakeClosure); ok {
			f, _ = mc.Fn.(*ssa.Function)
		}
	}
	if f == nil {
		return out
	}
	seen := map[*ssa.Function]bool{}
	var walk func(g *ssa.Function)
	walk = func(g *ssa.Function) {
		if g == nil || seen[g] || g.Blocks == nil {
			return
		}
		pk := g.Pkg
		if pk == nil && g.Parent() != nil {
			pk = g.Parent().Pkg
		}
		if pk == nil || !strings.HasPrefix(pk.Pkg.Path(), ModulePath) {
			return
		}
		seen[g] = true
		for _, b := range g.Blocks {
			for _, in := range b.Instrs {
				if ci, ok := in.(ssa.CallInstruction); ok {
					cc := ci.Common()
					for n := range callNames(cc) {
						out[n] = true
					}
					walk(cc.StaticCallee())
				}
				if mc, ok := in.(*ssa.MakeClosure); ok {
					if lf, ok := mc.Fn.(*ssa.Function); ok {
						walk(lf)
					}
				}
			}
		}
	}
	walk(f)
	return out
}

// applyCallAsserts generates the obligations of "call NAME assert expr" clauses before a call to NAME.
func (e *FnEnc) applyCallAsserts(c *ssa.CallCommon, in ssa.Instruction) {
	if e.con == nil || len(e.con.CallAsserts) == 0 {
		return
	}
	names := callNames(c)
	var reach map[string]bool
	for k, a := range e.con.CallAsserts {
		if !clauseActive(a.Clause, e.prop) {
			continue
		}
		if !names[a.Callee] {
			if !a.Reach {
				continue
			}
			if reach == nil {
				reach = e.W.reachNames(c, e.fn)
			}
			if !reach[a.Callee] {
				continue
			}
			// the forbidden call happens somewhere below this call: the clause is evaluated here without a0..an
			env := e.specEnv(e.cur, e.initState, nil)
			env.site = e.curBlock
			e.obligeClause(env, a.Clause, fmt.Sprintf("call.%s.reached.assert%d@%s", mangle(a.Callee), k+1, e.posOf(in)), "protocol", e.curGuard, e.posOf(in))
			continue
		}
		env := e.specEnv(e.cur, e.initState, nil)
		env.site = e.curBlock
		for j, x := range c.Args {
			env.vars[fmt.Sprintf("a%d", j)] = e.val(x)
		}
		if c.IsInvoke() {
			env.vars["recv"] = e.val(c.Value)
		}
		e.obligeClause(env, a.Clause, fmt.Sprintf("call.%s.assert%d@%s", mangle(a.Callee), k+1, e.posOf(in)), "protocol", e.curGuard, e.posOf(in))
	}
}

// protectCheck: a read or write of a protected struct field must satisfy the declared condition.
func (e *FnEnc) protectCheck(l *Loc, write bool, in ssa.Instruction) {
	if e.con == nil || len(e.W.Contracts.Protects) == 0 || len(l.Path) == 0 || l.Path[0].Field < 0 || l.Elem {
		return
	}
	nt, ok := l.RootTy.(*types.Named)
	if !ok {
		return
	}
	st, ok := nt.Underlying().(*types.Struct)
	if !ok {
		return
	}
	fname := st.Field(l.Path[0].Field).Name()
	for pi := range e.W.Contracts.Protects {
		p := &e.W.Contracts.Protects[pi]
		if p.Type != nt.Obj().Name() || !p.matchesField(fname) || nt.Obj().Pkg() == nil {
			continue
		}
		if p.TypePkg == "" {
			if nt.Obj().Pkg().Path() != p.Pkg {
				continue
			}
		} else {
			fp := e.fn.Pkg
			if fp == nil && e.fn.Parent() != nil {
				fp = e.fn.Parent().Pkg
			}
			if nt.Obj().Pkg().Name() != p.TypePkg || fp == nil || fp.Pkg.Path() != p.Pkg {
				continue
			}
		}
		cl := p.Read
		kind := "read"
		if write {
			cl, kind = p.Write, "write"
		}
		if !clauseActive(*cl, e.prop) {
			continue
		}
		if b, isLit := cl.Expr.(*EBool); isLit && b.V {
			continue
		}
		env := e.specEnv(e.cur, e.initState, nil)
		env.site = e.curBlock
		env.vars["self"] = Val{T: l.Ref, Ty: types.NewPointer(l.RootTy)} // the object whose field is accessed
		e.obligeClause(env, *cl, fmt.Sprintf("protect.%s.%s.%s@%s", p.Type, fname, kind, e.posOf(in)), "protocol", e.curGuard, e.posOf(in))
	}
}

// immutableHeap: objects owned by go/ssa, go/types, go/token, go/constant and go/ast are not mutated by the code
// under contract (assumption A-imm): unknown calls leave their struct heaps unchanged.
func immutableHeap(name string) bool {
	for _, p := range []string{"H.S.ssa.", "H.S.types.", "H.S.token.", "H.S.constant.", "H.S.ast.", "AI."} {
		if strings.HasPrefix(name, p) {
			return true
		}
	}
	if strings.HasPrefix(name, "A.ref.") {
		return true
	}
	return false
}

func isByteSlice(t types.Type) bool {
	st, ok := t.Underlying().(*types.Slice)
	return ok && isByte(st.Elem())
}
