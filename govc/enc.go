package govc

import (
	"fmt"
	"go/types"
	"sort"
	"strings"

	"golang.org/x/tools/go/ssa"
)

// Val is the symbolic value of an SSA value or of a spec expression.
type Val struct {
	T       string     // SMT term
	Ty      types.Type // Go type (nil for pure spec values)
	Loc     *Loc       // derived address (FieldAddr / IndexAddr chains)
	Tup     []Val      // tuple components
	SetElem types.Type // non-nil: T is a set (Array elem Bool) of this element type
	Sort    string     // explicit sort for spec-only values (when Ty == nil)
	Owned   bool       // a slice read from a field of an object owned by go/ssa, go/types, ...: indexed in the owned array heap
}

type PathStep struct {
	Field int    // field index, or -1 for an array index step
	Idx   string // array index term
	Ty    types.Type
}

// Loc is an address resolved at generation time: a root object in some heap plus a path into it.
type Loc struct {
	Heap   HeapVar
	Ref    string // root reference (struct/cell) or backing-array reference (slice element)
	Elem   bool   // slice element: value is select(select(Heap, Ref), Idx)
	Idx    string
	RootTy types.Type
	Path   []PathStep
}

type State map[string]string // heap variable base name -> current version term

type Obligation struct {
	Name    string
	Func    string
	Kind    string // post, inv-entry, inv-preserved, pre, frame, bind, safe
	Clause  string
	Tags    []string
	Guard   string
	Goal    string
	Cut     int // number of script lines visible
	Pos     string
	Abstracted bool
	Alts    []*Obligation // a case split of this obligation: all of them together imply it
	enc     *FnEnc
}

type loopInfo struct {
	header  *ssa.BasicBlock
	blocks  map[*ssa.BasicBlock]bool
	ordinal int
	// filled when the header is processed
	preState State
	hdrState State
	preAlloc string
	modRefs  map[string][]modT // heap base name -> declared modification targets
	entryVals map[*ssa.Phi]Val // values of the header phis on loop entry (what pre(x) denotes for a loop variable)
	otherInv  []string // invariants tagged for other properties, evaluated at the header (hypotheses of the frame obligations)
	indirect  map[string]map[int]bool // heaps written through loaded pointers / maps, with the struct fields written (-1: any) (memo of indirectWrites)
}

// FnEnc encodes one function.
type FnEnc struct {
	W        *World
	fn       *ssa.Function
	con      *FuncContract
	prop     string
	script   []string
	obls     []*Obligation
	vals     map[ssa.Value]Val
	guard    map[*ssa.BasicBlock]string
	exit     map[*ssa.BasicBlock]State
	entry    map[*ssa.BasicBlock]State
	edge     map[[2]int]string
	loops    map[*ssa.BasicBlock]*loopInfo
	loopList []*loopInfo
	heapVars map[string]HeapVar
	fresh    int
	cur      State
	curBlock *ssa.BasicBlock
	curIdx   int // index of the instruction being encoded in curBlock
	renames  map[string]string // recorded local name -> current name (rename tolerance)
	curGuard string
	initState State
	localRefs map[string]string // heap base -> list of non-escaped local refs (by ref term)
	locals   []localRef
	abstracted []string
	assumed  []string // notes: trusted contracts / havocked calls used
	rangeVis map[ssa.Value]HeapVar // Range instr -> visited-set ghost var
	rangeMap map[ssa.Value]Val
	debugNames map[string][]debugBinding
	dry      bool
	retVals  [][]Val
	namedResults []string
	lets     map[string]Val
	calleeUsed map[string]bool
	modRefsFn map[string][]modT
	errs     []string
	defers   []deferred
	ghosts   map[string]HeapVar
	bags     *bagState
	returnEnsuresBound map[int]int
	// inlining of small module helpers that have no contract (inline.go)
	parent     *FnEnc
	entryGuard string
	rets       []retInfo
	addrTerms  []addrTerm // integer identities given to field addresses (speceval.go addrOf)
	pure       bool // term mode (pureEval): definitions are substituted, nothing is emitted
	impure     bool // term mode met something that needs a declaration, an assumption-free reading does not exist
}

type addrTerm struct {
	term, rootSort, ref string
	field               int
}

type localRef struct {
	heap string
	ref  string
	esc  *escInfo // nil: the object never escapes; otherwise the program points from which it may have escaped
	elem types.Type // the allocated type (struct objects: lets a loop preserve the fields it does not write)
}

// escInfo: for each block, the index of the first instruction at which the object may already be reachable by code
// outside this function (blocks not listed: not escaped anywhere in them).
type escInfo struct{ first map[*ssa.BasicBlock]int }

func (x *escInfo) escapedAt(b *ssa.BasicBlock, idx int) bool {
	if x == nil {
		return false
	}
	f, ok := x.first[b]
	return ok && idx >= f
}

type debugBinding struct {
	block *ssa.BasicBlock
	idx   int
	val   ssa.Value
	addr  bool
}

func (e *FnEnc) emit(s string) {
	if e.pure {
		if strings.HasPrefix(s, "(declare-") {
			e.impure = true
		}
		return // facts are dropped in term mode: fewer assumptions
	}
	e.script = append(e.script, s)
}

func (e *FnEnc) freshName(prefix string) string {
	e.fresh++
	return fmt.Sprintf("%s!%d", prefix, e.fresh)
}

func (e *FnEnc) declare(prefix, sort string) string {
	n := e.freshName(prefix)
	e.emit(fmt.Sprintf("(declare-fun %s () %s)", n, sort))
	return n
}

func (e *FnEnc) define(prefix, sort, term string) string {
	if e.pure {
		return term
	}
	n := e.freshName(prefix)
	e.emit(fmt.Sprintf("(define-fun %s () %s %s)", n, sort, term))
	return n
}

// declareEq introduces a declared constant equal to term (usable inside quantifier patterns, unlike define-fun
// names, which the solvers expand).
func (e *FnEnc) declareEq(prefix, sort, term string) string {
	n := e.declare(prefix, sort)
	e.emit(fmt.Sprintf("(assert (= %s %s))", n, term))
	return n
}

func (e *FnEnc) assume(fact string) {
	if fact == "true" || fact == "" {
		return
	}
	e.emit(fmt.Sprintf("(assert %s)", implies(e.curGuard, fact)))
}

func (e *FnEnc) assumeUnder(g, fact string) {
	if fact == "true" || fact == "" {
		return
	}
	e.emit(fmt.Sprintf("(assert %s)", implies(g, fact)))
}

func (e *FnEnc) oblige(o *Obligation) {
	if e.pure {
		e.impure = true
		return
	}
	// (loop frames are assumed at the loop header whatever the property, so they are proved whatever the property)
	con := e.con
	for p := e.parent; con == nil && p != nil; p = p.parent {
		con = p.con // code encoded in place belongs to the function it is encoded in
	}
	if con != nil && len(o.Tags) == 0 && o.Kind != "cover" && o.Kind != "bind" && !(o.Kind == "frame" && strings.HasPrefix(o.Name, "loop")) {
		for _, p := range con.ProtocolOnly {
			if p == e.prop {
				return // proved in the runs of the properties this function's functional clauses belong to
			}
		}
	}
	o.Func = e.fn.String()
	o.Cut = len(e.script)
	o.enc = e
	if len(e.abstracted) > 0 {
		o.Abstracted = true
	}
	e.obls = append(e.obls, o)
}

func (e *FnEnc) sorts() *Sorts { return e.W.Sorts }

// heap returns the current version of a heap variable, registering it on first use.
func (e *FnEnc) heap(h HeapVar) string {
	if _, ok := e.heapVars[h.Name]; !ok {
		e.heapVars[h.Name] = h
	}
	if v, ok := e.cur[h.Name]; ok {
		return v
	}
	return h.Name + "@0"
}

func (e *FnEnc) heapIn(st State, h HeapVar) string {
	if _, ok := e.heapVars[h.Name]; !ok {
		e.heapVars[h.Name] = h
	}
	if v, ok := st[h.Name]; ok {
		return v
	}
	return h.Name + "@0"
}

func (e *FnEnc) setHeap(h HeapVar, term string) {
	if _, ok := e.heapVars[h.Name]; !ok {
		e.heapVars[h.Name] = h
	}
	n := e.define(h.Name, h.Sort, term)
	e.cur[h.Name] = n
}

func (e *FnEnc) havocHeap(h HeapVar) string {
	if _, ok := e.heapVars[h.Name]; !ok {
		e.heapVars[h.Name] = h
	}
	n := e.declare(h.Name, h.Sort)
	e.cur[h.Name] = n
	return n
}

func (e *FnEnc) alloc() string { return e.heap(AllocVar) }

func (e *FnEnc) newRef() string {
	r := e.define("ref", "Int", sx("+", e.alloc(), "1"))
	e.cur[AllocVar.Name] = r
	return r
}

func copyState(s State) State {
	t := State{}
	for k, v := range s {
		t[k] = v
	}
	return t
}

// ------------------------------------------------------------------ validity of values

func (e *FnEnc) validFact(t string, ty types.Type, depth int) string {
	switch u := ty.Underlying().(type) {
	case *types.Basic:
		if u.Info()&types.IsInteger != 0 {
			switch u.Kind() {
			case types.Uint8:
				return and(sx(">=", t, "0"), sx("<=", t, "255"))
			case types.Uint16:
				return and(sx(">=", t, "0"), sx("<=", t, "65535"))
			case types.Uint32:
				return and(sx(">=", t, "0"), sx("<=", t, "4294967295"))
			case types.Uint, types.Uint64, types.Uintptr:
				return sx(">=", t, "0")
			case types.Int8:
				return and(sx(">=", t, "(- 128)"), sx("<=", t, "127"))
			case types.Int16:
				return and(sx(">=", t, "(- 32768)"), sx("<=", t, "32767"))
			case types.Int32:
				return and(sx(">=", t, "(- 2147483648)"), sx("<=", t, "2147483647"))
			}
		}
		return "true"
	case *types.Map:
		// maps of different Go types are different objects
		return and(sx("<=", t, e.alloc()), implies(not(sx("=", t, "0")), sx("=", e.W.UF("mtype", []string{"Int"}, "Int", t), fmt.Sprint(e.W.TypeID(u)))))
	case *types.Pointer, *types.Chan, *types.Signature, *types.Interface:
		return sx("<=", t, e.alloc())
	case *types.Slice:
		return and(sx("<=", sx("sref", t), e.alloc()), sx(">=", sx("sref", t), "0"), sx(">=", sx("slen", t), "0"),
			implies(sx("=", sx("sref", t), "0"), sx("=", sx("slen", t), "0")))
	case *types.Struct:
		if depth > 3 {
			return "true"
		}
		var fs []string
		for i := 0; i < u.NumFields(); i++ {
			fs = append(fs, e.validFact(e.sorts().GetField(ty, t, i), u.Field(i).Type(), depth+1))
		}
		return and(fs...)
	}
	return "true"
}

func (e *FnEnc) assumeValid(v Val) {
	if v.Ty == nil || v.T == "" {
		return
	}
	e.assume(e.validFact(v.T, v.Ty, 0))
}

// ------------------------------------------------------------------ locations

func (e *FnEnc) locOf(v Val) *Loc {
	if v.Loc != nil {
		return v.Loc
	}
	pt, ok := v.Ty.Underlying().(*types.Pointer)
	if !ok {
		return nil
	}
	return &Loc{Heap: e.sorts().CellHeap(pt.Elem()), Ref: v.T, RootTy: pt.Elem()}
}

func (e *FnEnc) rootValue(st State, l *Loc) string {
	h := e.heapIn(st, l.Heap)
	if l.Elem {
		return sx("select", sx("select", h, l.Ref), l.Idx)
	}
	return sx("select", h, l.Ref)
}

func (e *FnEnc) loadIn(st State, l *Loc) (string, types.Type) {
	t := e.rootValue(st, l)
	ty := l.RootTy
	for _, s := range l.Path {
		if s.Field >= 0 {
			t = e.sorts().GetField(ty, t, s.Field)
			ty = ty.Underlying().(*types.Struct).Field(s.Field).Type()
		} else {
			t = sx("select", t, s.Idx)
			ty = ty.Underlying().(*types.Array).Elem()
		}
	}
	return t, ty
}

func (e *FnEnc) updPath(ty types.Type, cur string, path []PathStep, nv string) string {
	if len(path) == 0 {
		return nv
	}
	s := path[0]
	if s.Field >= 0 {
		ft := ty.Underlying().(*types.Struct).Field(s.Field).Type()
		inner := e.updPath(ft, e.sorts().GetField(ty, cur, s.Field), path[1:], nv)
		return e.sorts().UpdateField(ty, cur, s.Field, inner)
	}
	et := ty.Underlying().(*types.Array).Elem()
	inner := e.updPath(et, sx("select", cur, s.Idx), path[1:], nv)
	return sx("store", cur, s.Idx, inner)
}

func (e *FnEnc) storeLoc(l *Loc, nv string) {
	root := e.rootValue(e.cur, l)
	if len(l.Path) > 0 {
		// name the root to keep terms small
		root = e.define("root", e.sorts().SortOf(l.RootTy), root)
	}
	nr := e.updPath(l.RootTy, root, l.Path, nv)
	h := e.heap(l.Heap)
	if l.Elem {
		e.setHeap(l.Heap, sx("store", h, l.Ref, sx("store", sx("select", h, l.Ref), l.Idx, nr)))
	} else {
		e.setHeap(l.Heap, sx("store", h, l.Ref, nr))
	}
}

// ------------------------------------------------------------------ CFG helpers

func (e *FnEnc) computeLoops() {
	fn := e.fn
	e.loops = map[*ssa.BasicBlock]*loopInfo{}
	for _, b := range fn.Blocks {
		for _, s := range b.Succs {
			if s.Dominates(b) {
				li := e.loops[s]
				if li == nil {
					li = &loopInfo{header: s, blocks: map[*ssa.BasicBlock]bool{s: true}}
					e.loops[s] = li
				}
				// natural loop of back edge b->s
				stack := []*ssa.BasicBlock{b}
				for len(stack) > 0 {
					x := stack[len(stack)-1]
					stack = stack[:len(stack)-1]
					if li.blocks[x] {
						continue
					}
					li.blocks[x] = true
					stack = append(stack, x.Preds...)
				}
			}
		}
	}
	var hs []*ssa.BasicBlock
	for h := range e.loops {
		hs = append(hs, h)
	}
	sort.Slice(hs, func(i, j int) bool { return hs[i].Index < hs[j].Index })
	for i, h := range hs {
		e.loops[h].ordinal = i + 1
		e.loopList = append(e.loopList, e.loops[h])
	}
}

func isBackEdge(from, to *ssa.BasicBlock) bool { return to.Dominates(from) }

// rpo returns blocks in reverse post-order of the CFG without back edges.
func (e *FnEnc) rpo() []*ssa.BasicBlock {
	seen := map[*ssa.BasicBlock]bool{}
	var post []*ssa.BasicBlock
	var dfs func(b *ssa.BasicBlock)
	dfs = func(b *ssa.BasicBlock) {
		seen[b] = true
		for i := len(b.Succs) - 1; i >= 0; i-- {
			s := b.Succs[i]
			if !seen[s] && !isBackEdge(b, s) {
				dfs(s)
			}
		}
		post = append(post, b)
	}
	dfs(e.fn.Blocks[0])
	// Recover block is reachable only through panics: not part of the normal CFG
	for i, j := 0, len(post)-1; i < j; i, j = i+1, j-1 {
		post[i], post[j] = post[j], post[i]
	}
	// RPO from DFS is a topological order of the acyclic graph only if we finish children first; verify.
	pos := map[*ssa.BasicBlock]int{}
	for i, b := range post {
		pos[b] = i
	}
	for _, b := range post {
		for _, p := range b.Preds {
			if _, ok := pos[p]; ok && !isBackEdge(p, b) && pos[p] > pos[b] {
				e.errs = append(e.errs, fmt.Sprintf("irreducible control flow at block %d", b.Index))
			}
		}
	}
	return post
}

func (e *FnEnc) edgeGuard(from, to *ssa.BasicBlock) string {
	return e.edge[[2]int{from.Index, to.Index}]
}

// mergeStates merges the exit states of the given predecessor edges.
func (e *FnEnc) mergeStates(preds []*ssa.BasicBlock, to *ssa.BasicBlock) State {
	if len(preds) == 0 {
		return copyState(e.initState)
	}
	if len(preds) == 1 {
		return copyState(e.exit[preds[0]])
	}
	keys := map[string]bool{}
	for _, p := range preds {
		for k := range e.exit[p] {
			keys[k] = true
		}
	}
	out := State{}
	for _, k := range sortedKeys(keys) {
		get := func(p *ssa.BasicBlock) string {
			if v, ok := e.exit[p][k]; ok {
				return v
			}
			return k + "@0"
		}
		first := get(preds[0])
		same := true
		for _, p := range preds[1:] {
			if get(p) != first {
				same = false
			}
		}
		if same {
			out[k] = first
			continue
		}
		t := get(preds[len(preds)-1])
		for i := len(preds) - 2; i >= 0; i-- {
			t = ite(e.edgeGuard(preds[i], to), get(preds[i]), t)
		}
		hv := e.heapVars[k]
		out[k] = e.define(k, hv.Sort, t)
	}
	return out
}

func (e *FnEnc) note(s string) {
	for _, x := range e.assumed {
		if x == s {
			return
		}
	}
	e.assumed = append(e.assumed, s)
}

func (e *FnEnc) abstract(why string) {
	for _, x := range e.abstracted {
		if x == why {
			return
		}
	}
	e.abstracted = append(e.abstracted, why)
}

func typeKey(t types.Type) string { return strings.ReplaceAll(types.TypeString(t, nil), " ", "") }
