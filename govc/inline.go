package govc

import (
	"fmt"
	"os"

	"golang.org/x/tools/go/ssa"
)

// Inlining of small module helpers that carry no contract.
//
// A call to a module function without a contract used to be encoded as "its inferred write set is havocked, the
// result is arbitrary". That is sound but loses every functional fact, so moving three statements of a function
// under contract into a helper (the most common refactoring there is) made the caller's clauses unprovable: a false
// alarm. A helper that is loop-free, defer-free, not a closure, not recursive and small is instead encoded in place:
// its blocks are run by a child encoder that shares the caller's script, obligations, heap variables and fresh-name
// counter, starts in the caller's current state under the caller's current guard, and whose returns are merged into
// the result value and the state after the call. The verified text is still /repo's code (the callee's SSA), nothing
// is trusted: the encoding is the one the callee would get as part of the caller's body, and calls the helper makes
// to functions under contract are checked against those contracts (their requires become obligations of the caller).
// Paths on which the helper panics are treated as in every function (A9).

type retInfo struct {
	guard string
	vals  []Val
	st    State
}

const (
	inlineMaxBlocks = 24
	inlineMaxInstrs = 160
	inlineMaxDepth  = 3
)

func (e *FnEnc) inlinable(f *ssa.Function) bool {
	if os.Getenv("GOVC_NOINLINE") != "" {
		return false
	}
	if f == nil || len(f.Blocks) == 0 || len(f.Blocks) > inlineMaxBlocks || len(f.FreeVars) > 0 || f.Recover != nil || f.Signature.Variadic() {
		return false
	}
	if f.TypeParams().Len() > 0 || len(f.TypeArgs()) > 0 {
		return false
	}
	depth := 0
	for p := e; p != nil; p = p.parent {
		if p.fn == f {
			return false
		}
		depth++
	}
	if depth > inlineMaxDepth {
		return false
	}
	n := 0
	for _, b := range f.Blocks {
		n += len(b.Instrs)
		for _, s := range b.Succs {
			if isBackEdge(b, s) {
				return false
			}
		}
		for _, in := range b.Instrs {
			switch in.(type) {
			case *ssa.Defer, *ssa.Go, *ssa.Select, *ssa.RunDefers:
				return false
			}
		}
	}
	return n <= inlineMaxInstrs
}

func (e *FnEnc) inlineCall(v ssa.Value, f *ssa.Function, args []Val) {
	ch := e.W.newEnc(f, nil, e.prop)
	ch.parent = e
	ch.dry = e.dry
	ch.heapVars = e.heapVars
	ch.script = e.script
	ch.obls = e.obls
	ch.fresh = e.fresh
	// the caller's objects that are still unreachable from outside at this call (an object passed to the helper counts
	// as escaped from the call on) stay untouched by whatever the helper calls
	for _, l := range e.locals {
		if !l.esc.escapedAt(e.curBlock, e.curIdx) {
			l.esc = nil
			ch.locals = append(ch.locals, l)
		}
	}
	ch.ghosts = e.ghosts
	ch.abstracted = e.abstracted
	ch.assumed = e.assumed
	ch.entryGuard = e.curGuard
	ch.initState = copyState(e.cur)
	ch.cur = copyState(e.cur)
	ch.curGuard = e.curGuard
	nObl := len(e.obls)
	for i, p := range f.Params {
		a := args[i]
		a.Ty = p.Type()
		ch.vals[p] = a
	}
	ch.computeLoops()
	ch.bagInit()
	for _, b := range ch.rpo() {
		ch.block(b)
	}
	e.script = ch.script
	e.obls = ch.obls
	e.fresh = ch.fresh
	e.abstracted = ch.abstracted
	e.assumed = ch.assumed
	e.errs = append(e.errs, ch.errs...)
	for _, o := range e.obls[nObl:] {
		o.Name = "inl." + f.Name() + "." + o.Name
		o.Func = e.fn.String()
		o.enc = e
		for _, a := range o.Alts {
			a.Func, a.enc = o.Func, e
		}
	}
	e.note("inlined helper without a contract: " + calleeName(f))
	if len(ch.rets) == 0 {
		// the helper returns on no path (it panics): nothing after the call is reached
		e.assume("false")
		if v != nil {
			e.havocVal(v)
		}
		return
	}
	var gs []string
	for _, r := range ch.rets {
		gs = append(gs, r.guard)
	}
	e.assume(or(gs...))
	// state after the call
	keys := map[string]bool{}
	for _, r := range ch.rets {
		for k := range r.st {
			keys[k] = true
		}
	}
	out := copyState(e.cur)
	for _, k := range sortedKeys(keys) {
		get := func(r retInfo) string {
			if t, ok := r.st[k]; ok {
				return t
			}
			return k + "@0"
		}
		last := len(ch.rets) - 1
		t := get(ch.rets[last])
		same := true
		for i := last - 1; i >= 0; i-- {
			g := get(ch.rets[i])
			if g != t {
				same = false
			}
		}
		if same {
			out[k] = t
			continue
		}
		for i := last - 1; i >= 0; i-- {
			t = ite(ch.rets[i].guard, get(ch.rets[i]), t)
		}
		out[k] = e.define(k, e.heapVars[k].Sort, t)
	}
	e.cur = out
	if v == nil {
		return
	}
	rs := f.Signature.Results()
	if rs.Len() == 0 {
		return
	}
	merged := make([]Val, rs.Len())
	for j := 0; j < rs.Len(); j++ {
		if len(ch.rets) == 1 {
			merged[j] = ch.rets[0].vals[j]
			continue
		}
		last := len(ch.rets) - 1
		t := ch.rets[last].vals[j].T
		for i := last - 1; i >= 0; i-- {
			t = ite(ch.rets[i].guard, ch.rets[i].vals[j].T, t)
		}
		merged[j] = Val{T: e.define(fmt.Sprintf("inl.%s.r%d", mangle(f.Name()), j), e.sorts().SortOf(rs.At(j).Type()), t), Ty: rs.At(j).Type()}
	}
	if rs.Len() == 1 {
		m := merged[0]
		m.Ty = v.Type()
		e.vals[v] = m
		return
	}
	e.vals[v] = Val{Tup: merged, Ty: v.Type()}
}

// pureEval reads a small loop-free function (a comparator literal) as a term over its parameters: its blocks are
// encoded in state st with every definition substituted instead of named, so the parameters may be bound variables
// of a quantifier. It fails (ok == false) when the body needs anything that cannot be a closed term: a call with an
// arbitrary result, an allocation-dependent fact, an obligation.
func (e *FnEnc) pureEval(f *ssa.Function, st State, params, free []Val) (string, bool) {
	if len(f.Blocks) == 0 || len(f.Blocks) > inlineMaxBlocks || f.Recover != nil || f.Signature.Results().Len() != 1 || len(params) != len(f.Params) || len(free) != len(f.FreeVars) {
		return "", false
	}
	for _, b := range f.Blocks {
		for _, s := range b.Succs {
			if isBackEdge(b, s) {
				return "", false
			}
		}
		for _, in := range b.Instrs {
			switch in.(type) {
			case *ssa.Defer, *ssa.Go, *ssa.Select, *ssa.RunDefers, *ssa.MakeClosure:
				return "", false
			}
		}
	}
	ch := e.W.newEnc(f, nil, e.prop)
	ch.parent = e
	ch.pure = true
	ch.dry = e.dry
	ch.heapVars = e.heapVars
	ch.fresh = e.fresh
	ch.ghosts = e.ghosts
	ch.entryGuard = "true"
	ch.initState = copyState(st)
	ch.cur = copyState(st)
	ch.curGuard = "true"
	for i, p := range f.Params {
		a := params[i]
		a.Ty = p.Type()
		ch.vals[p] = a
	}
	for i, p := range f.FreeVars {
		ch.vals[p] = free[i]
	}
	ch.computeLoops()
	ch.bagInit()
	for _, b := range ch.rpo() {
		ch.block(b)
		if ch.impure {
			return "", false
		}
	}
	e.fresh = ch.fresh
	if len(ch.rets) == 0 || len(ch.abstracted) > 0 {
		return "", false
	}
	last := len(ch.rets) - 1
	t := ch.rets[last].vals[0].T
	for i := last - 1; i >= 0; i-- {
		t = ite(ch.rets[i].guard, ch.rets[i].vals[0].T, t)
	}
	if t == "" || len(t) > 40000 {
		return "", false
	}
	return t, true
}
