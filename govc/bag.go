package govc

import (
	"fmt"
	"go/token"
	"go/types"
	"strings"

	"golang.org/x/tools/go/ssa"
)

// Order discipline for C10 (DESIGN §3.5, "bags"): a slice whose element order depends on map iteration order or on
// goroutine completion order is a *bag*.  A bag becomes a sequence again only by a sort whose comparator is total on
// the elements (an SMT obligation) - sort.Strings always is.  A function marked "deterministic" must not return a
// bag, store one into an object it returns, or hand one to an encoder.  The bag status is ghost state kept by the
// generator along the same pass that generates the other obligations; loop-header phis are seeded by a
// flow-insensitive pre-pass (an over-approximation).

// bagSt is the flow-sensitive ghost state of the discipline at one program point: the SSA values that currently are
// bags (or point to an object that holds one), and the cells (Alloc / FreeVar / Global / parameter roots) through
// which a bag can currently be reached.
type bagSt struct {
	vals  map[ssa.Value]bool
	cells map[cellKey]bool
}

// cellKey: a root cell and the field of the object it holds (or -1: the cell itself / the whole object).
type cellKey struct {
	r ssa.Value
	f int
}

func newBagSt() *bagSt { return &bagSt{vals: map[ssa.Value]bool{}, cells: map[cellKey]bool{}} }

// cellHas: a bag can be reached through the address (exactly that field, the whole object, or - for the object
// itself - any of its fields).
func (s *bagSt) cellHas(addr ssa.Value) bool {
	k := rootField(addr)
	if s.cells[k] || s.cells[cellKey{k.r, -1}] {
		return true
	}
	if k.f < 0 {
		for c, v := range s.cells {
			if v && c.r == k.r {
				return true
			}
		}
	}
	return false
}

// has: the value is a bag, or a pointer / interface through which one can be reached.
func (s *bagSt) has(v ssa.Value) bool {
	if s.vals[v] {
		return true
	}
	if mi, ok := v.(*ssa.MakeInterface); ok {
		return s.has(mi.X)
	}
	if _, isC := v.(*ssa.Const); isC {
		return false
	}
	if isPtrT(v.Type()) && s.cellHas(v) {
		return true
	}
	return false
}

func (s *bagSt) cellSet(addr ssa.Value)   { s.cells[rootField(addr)] = true }
func (s *bagSt) cellClear(addr ssa.Value) { delete(s.cells, rootField(addr)) }

func (s *bagSt) copy() *bagSt {
	n := newBagSt()
	for k, v := range s.vals {
		if v {
			n.vals[k] = true
		}
	}
	for k, v := range s.cells {
		if v {
			n.cells[k] = true
		}
	}
	return n
}

// join adds o into s; reports whether s grew.
func (s *bagSt) join(o *bagSt) bool {
	ch := false
	for k, v := range o.vals {
		if v && !s.vals[k] {
			s.vals[k] = true
			ch = true
		}
	}
	for k, v := range o.cells {
		if v && !s.cells[k] {
			s.cells[k] = true
			ch = true
		}
	}
	return ch
}

type bagState struct {
	*bagSt                              // the state at the current program point of the encoding pass
	in     map[*ssa.BasicBlock]*bagSt // fixpoint: state at block entry
}

// rootOf: the cell an address is reached from. Loads of local cells are looked through, so that "loop.Exits" names
// the same root wherever the captured variable loop is read (an over-approximation: the cell stands for everything
// reachable from it).
func rootOf(addr ssa.Value) ssa.Value { return rootField(addr).r }

func rootField(addr ssa.Value) cellKey {
	f := -1
	for depth := 0; depth < 32; depth++ {
		switch a := addr.(type) {
		case *ssa.FieldAddr:
			f = a.Field
			addr = a.X
			continue
		case *ssa.IndexAddr:
			if _, ok := a.X.Type().Underlying().(*types.Slice); ok {
				return cellKey{a.X, -1}
			}
			addr = a.X
			continue
		case *ssa.UnOp:
			if a.Op == token.MUL {
				switch a.X.(type) {
				case *ssa.Alloc, *ssa.FreeVar, *ssa.Global, *ssa.FieldAddr:
					addr = a.X
					continue
				}
			}
		}
		return cellKey{addr, f}
	}
	return cellKey{addr, f}
}

func (e *FnEnc) deterministic() bool {
	return e.con != nil && e.con.Deterministic && e.con.DetProps[e.prop]
}

func (e *FnEnc) inMapRange(b *ssa.BasicBlock) bool {
	for _, li := range e.loopList {
		if !li.blocks[b] {
			continue
		}
		for _, in := range li.header.Instrs {
			if nx, ok := in.(*ssa.Next); ok && !nx.IsString {
				if r, ok := nx.Iter.(*ssa.Range); ok {
					if _, isMap := r.X.Type().Underlying().(*types.Map); isMap {
						return true
					}
				}
			}
		}
	}
	return false
}

// leftEarly: the loop with header h has an exit other than its header's (a break or a return in its body).
func (e *FnEnc) leftEarly(h *ssa.BasicBlock) bool {
	li := e.loops[h]
	if li == nil {
		return false
	}
	for b := range li.blocks {
		if b == h {
			continue
		}
		for _, sc := range b.Succs {
			if !li.blocks[sc] {
				return true
			}
		}
		if len(b.Instrs) > 0 {
			if _, isRet := b.Instrs[len(b.Instrs)-1].(*ssa.Return); isRet {
				return true
			}
		}
	}
	// blocks that leave the loop at once (a break) are not part of the natural loop: look at the successors of body
	// blocks that are outside the loop and are not the header's own exit
	return false
}

// mapRangeHeader: b is the header of a loop that ranges over a map.
func (e *FnEnc) mapRangeHeader(b *ssa.BasicBlock) bool {
	for _, in := range b.Instrs {
		if nx, ok := in.(*ssa.Next); ok && !nx.IsString {
			if r, ok := nx.Iter.(*ssa.Range); ok {
				if _, isMap := r.X.Type().Underlying().(*types.Map); isMap {
					return true
				}
			}
		}
	}
	return false
}

// bagInit computes the fixpoint of the discipline's transfer function over the control-flow graph (a plain forward
// data-flow analysis: join = union, sorts kill), so that loop-header states are exact for the encoding pass.
func (e *FnEnc) bagInit() {
	e.bags = &bagState{bagSt: newBagSt(), in: map[*ssa.BasicBlock]*bagSt{}}
	if !e.deterministic() {
		return
	}
	entry := newBagSt()
	for _, p := range e.con.BagParams {
		for _, q := range e.fn.Params {
			if q.Name() == p {
				entry.vals[q] = true
			}
		}
	}
	for _, b := range e.fn.Blocks {
		e.bags.in[b] = newBagSt()
	}
	e.bags.in[e.fn.Blocks[0]].join(entry)
	work := []*ssa.BasicBlock{e.fn.Blocks[0]}
	queued := map[*ssa.BasicBlock]bool{e.fn.Blocks[0]: true}
	seen := map[*ssa.BasicBlock]bool{}
	for iter := 0; len(work) > 0 && iter < 100000; iter++ {
		b := work[0]
		work = work[1:]
		queued[b] = false
		st := e.bags.in[b].copy()
		for _, in := range b.Instrs {
			e.bagTransfer(st, in, false)
		}
		first := !seen[b]
		seen[b] = true
		for _, s := range b.Succs {
			if e.bags.in[s].join(st) || (first && !seen[s]) {
				if !queued[s] {
					queued[s] = true
					work = append(work, s)
				}
			}
		}
	}
}

// bagEnter: the encoding pass starts block b.
func (e *FnEnc) bagEnter(b *ssa.BasicBlock) {
	if e.bags == nil || !e.deterministic() {
		return
	}
	if st := e.bags.in[b]; st != nil {
		e.bags.bagSt = st.copy()
	}
}

// fromFreeVar: the value is read from state shared with the enclosing function (a captured variable, or anything
// reached from one through loads, fields and elements).
func (e *FnEnc) fromFreeVar(v ssa.Value) bool {
	for depth := 0; depth < 16; depth++ {
		switch x := v.(type) {
		case *ssa.FreeVar:
			return true
		case *ssa.UnOp:
			v = x.X
		case *ssa.FieldAddr:
			v = x.X
		case *ssa.IndexAddr:
			v = x.X
		case *ssa.Field:
			v = x.X
		case *ssa.Slice:
			v = x.X
		default:
			return false
		}
	}
	return false
}

// inBagRange: the block belongs to a loop that walks an unordered collection (it indexes a bag defined outside it).
func (e *FnEnc) inBagRange(b *ssa.BasicBlock, isBag func(ssa.Value) bool) bool {
	for _, li := range e.loopList {
		if !li.blocks[b] {
			continue
		}
		for lb := range li.blocks {
			for _, in := range lb.Instrs {
				if ia, ok := in.(*ssa.IndexAddr); ok && isBag(ia.X) {
					if def, ok := ia.X.(ssa.Instruction); !ok || !li.blocks[def.Block()] {
						return true
					}
				}
			}
		}
	}
	return false
}

func (e *FnEnc) calleeContract(c *ssa.CallCommon) *FuncContract {
	if f := c.StaticCallee(); f != nil {
		return e.W.ContractFor(f)
	}
	return nil
}

func (e *FnEnc) calleeReturnsBag(c *ssa.CallCommon) bool {
	con := e.calleeContract(c)
	return con != nil && len(con.BagResults) > 0
}

func (e *FnEnc) calleeBagResult(c *ssa.CallCommon, idx int) bool {
	con := e.calleeContract(c)
	if con == nil {
		return false
	}
	for _, r := range con.BagResults {
		if r == idx {
			return true
		}
	}
	return false
}

func (e *FnEnc) isBag(v ssa.Value) bool { return e.bags.vals[v] }

func (e *FnEnc) bagViolation(what string, in ssa.Instruction) {
	e.oblige(&Obligation{Name: fmt.Sprintf("order.%s@%s", mangle(what), e.posOf(in)), Kind: "determinism",
		Clause: what + ": the element order depends on map iteration or goroutine completion order and no total sort intervenes",
		Tags: []string{e.prop + ".order"}, Guard: e.curGuard, Goal: "false", Pos: e.posOf(in)})
}

// bagInstr updates the bag state for one instruction of the encoding pass (after the instruction has been encoded)
// and generates the discipline's obligations.
func (e *FnEnc) bagInstr(in ssa.Instruction) {
	if e.bags == nil || !e.deterministic() {
		return
	}
	e.bagTransfer(e.bags.bagSt, in, true)
}

func isSliceT(t types.Type) bool { _, ok := t.Underlying().(*types.Slice); return ok }
func isPtrT(t types.Type) bool   { _, ok := t.Underlying().(*types.Pointer); return ok }
func isCarrierT(t types.Type) bool {
	switch t.Underlying().(type) {
	case *types.Slice, *types.Pointer, *types.Map:
		return true
	}
	return false
}

// bagTransfer is the transfer function; with report it also emits obligations (encoding pass only).
func (e *FnEnc) bagTransfer(b *bagSt, in ssa.Instruction, report bool) {
	tainted := func(v ssa.Value) bool {
		if b.vals[v] {
			return true
		}
		if mi, ok := v.(*ssa.MakeInterface); ok && b.vals[mi.X] {
			return true
		}
		return false
	}
	switch i := in.(type) {
	case *ssa.Phi:
		for _, ed := range i.Edges {
			if b.vals[ed] {
				b.vals[i] = true
			}
		}
	case *ssa.Slice:
		if b.vals[i.X] || (isPtrT(i.X.Type()) && b.cellHas(i.X)) {
			if hc, ok := i.High.(*ssa.Const); ok && hc.Value != nil && hc.Int64() == 0 {
				return // x[:0]: empty, whatever the order was
			}
			b.vals[i] = true
			// a proper part of an unordered collection: which elements it holds depends on the order, and sorting the
			// part afterwards does not repair that
			if report && isSliceT(i.X.Type()) && b.vals[i.X] && (i.Low != nil || i.High != nil) {
				e.bagViolation("a part of an unordered collection is selected by position", i)
			}
		}
	case *ssa.Extract:
		if c, ok := i.Tuple.(*ssa.Call); ok && e.calleeBagResult(&c.Call, i.Index) {
			b.vals[i] = true
		}
		// the key or value of a map range that can be left early: which element it is when the loop is left depends on
		// the iteration order. The element is tracked like an unordered collection: appending it, storing it or
		// returning it inside a collection carries the order dependence along.
		if nx, ok := i.Tuple.(*ssa.Next); ok && !nx.IsString && i.Index >= 1 {
			if r, ok := nx.Iter.(*ssa.Range); ok {
				if _, isMap := r.X.Type().Underlying().(*types.Map); isMap && e.leftEarly(nx.Block()) {
					b.vals[i] = true
				}
			}
		}
	case *ssa.MakeInterface:
		if b.vals[i.X] {
			b.vals[i] = true
		}
	case *ssa.Store:
		if !isCarrierT(i.Val.Type()) && b.vals[i.Val] {
			b.cellSet(i.Addr) // an order-dependent element stored into an object
		}
		if isCarrierT(i.Val.Type()) {
			if report && isSliceT(i.Val.Type()) && b.vals[i.Val] && e.con.Concurrent && e.fromFreeVar(i.Addr) {
				e.bagViolation("a concurrently running function stores an unordered collection into shared state", i)
			}
			if b.has(i.Val) {
				b.cellSet(i.Addr)
			} else if _, direct := i.Addr.(*ssa.Alloc); direct && isSliceT(i.Val.Type()) {
				b.cellClear(i.Addr) // the cell is overwritten by a sequence
			}
		}
	case *ssa.MapUpdate:
		if tainted(i.Value) || b.has(i.Value) {
			if u, ok := i.Map.(*ssa.UnOp); ok {
				b.cellSet(u.X)
			}
			b.vals[i.Map] = true
		}
	case *ssa.UnOp:
		if i.Op == token.MUL && isCarrierT(i.Type()) && b.cellHas(i.X) {
			b.vals[i] = true
		}
	case *ssa.Call:
		e.bagCall(b, i, report)
	case *ssa.Return:
		if !report {
			return
		}
		e.oblige(&Obligation{Name: "order.return-checked@" + e.posOf(i), Kind: "determinism", Clause: "no unordered collection reaches this return (order discipline: bags, total sorts)",
			Tags: []string{e.prop + ".order"}, Guard: e.curGuard, Goal: "true", Pos: e.posOf(i)})
		for k, r := range i.Results {
			allowed := false
			for _, br := range e.con.BagResults {
				if br == k {
					allowed = true
				}
			}
			if allowed {
				continue
			}
			if isSliceT(r.Type()) && b.vals[r] {
				e.bagViolation(fmt.Sprintf("result %d is returned as an unordered collection", k), i)
			} else if isCarrierT(r.Type()) && b.has(r) {
				e.bagViolation(fmt.Sprintf("result %d points to an object holding an unordered collection", k), i)
			}
		}
	}
}

func (e *FnEnc) bagCall(b *bagSt, i *ssa.Call, report bool) {
	c := &i.Call
	if bi, ok := c.Value.(*ssa.Builtin); ok {
		if bi.Name() == "append" {
			if e.inMapRange(i.Block()) || e.inBagRange(i.Block(), func(v ssa.Value) bool { return b.vals[v] && isSliceT(v.Type()) }) || b.has(c.Args[0]) || b.has(c.Args[1]) || (e.con.Concurrent && e.fromFreeVar(c.Args[0])) {
				b.vals[i] = true
			}
		}
		return
	}
	f := c.StaticCallee()
	name := ""
	if f != nil {
		name = calleeName(f)
	}
	cleanse := func(v ssa.Value) {
		delete(b.vals, v)
		if u, ok := v.(*ssa.UnOp); ok {
			b.cellClear(u.X)
		}
		if mi, ok := v.(*ssa.MakeInterface); ok {
			delete(b.vals, mi.X)
			if u, ok := mi.X.(*ssa.UnOp); ok {
				b.cellClear(u.X)
			}
		}
	}
	switch name {
	case "sort.Strings":
		cleanse(c.Args[0])
		return
	case "sort.Slice", "sort.SliceStable":
		var sl ssa.Value
		if mi, ok := c.Args[0].(*ssa.MakeInterface); ok {
			sl = mi.X
		}
		if report && sl != nil && b.vals[sl] {
			e.sortTotality(i, sl)
		}
		cleanse(c.Args[0])
		return
	}
	if e.calleeReturnsBag(c) {
		if _, isTup := i.Type().(*types.Tuple); !isTup {
			b.vals[i] = true
		}
	}
	if !report {
		return
	}
	// a bag handed to an encoder or printer reaches the output in its accidental order
	if strings.Contains(name, "encoding/json") || (c.IsInvoke() && c.Method.Name() == "Encode") {
		for _, a := range c.Args {
			v := a
			if mi, ok := a.(*ssa.MakeInterface); ok {
				v = mi.X
			}
			if b.vals[v] || b.cellHas(v) {
				e.bagViolation("an unordered collection is encoded", i)
			}
			if u, ok := v.(*ssa.UnOp); ok && b.cellHas(u.X) {
				e.bagViolation("an object holding an unordered collection is encoded", i)
			}
		}
	}
}

// sortTotality: sorting a bag yields a determined sequence only if the comparator is total on the elements:
// elements that are incomparable under it are equal.
func (e *FnEnc) sortTotality(i *ssa.Call, sl ssa.Value) {
	c := &i.Call
	mk := e.closureOf(c.Args[1])
	st, _ := sl.Type().Underlying().(*types.Slice)
	if mk == nil || st == nil {
		e.bagViolation("a bag is sorted with a comparator that is not a function literal", i)
		return
	}
	fn := mk.Fn.(*ssa.Function)
	con := e.W.ContractFor(fn)
	var lessExpr Expr
	if con != nil {
		for _, cl := range con.Ensures {
			if bx, ok := cl.Expr.(*EBinary); ok && (bx.Op == "==" || bx.Op == "<==>") {
				if id, ok := bx.X.(*EIdent); ok && id.Name == "result" {
					lessExpr = bx.Y
				}
			}
		}
	}
	if lessExpr == nil {
		e.bagViolation("a bag is sorted with a comparator that has no contract 'ensures result == E'", i)
		return
	}
	slice := e.val(sl)
	// the sort model has already replaced the row; totality is stated over the sorted row (a permutation of the input)
	less := func(a, b string) string {
		env := &Env{e: e, st: e.cur, old: e.cur, vars: map[string]Val{}, guard: e.curGuard}
		if fn.Parent() != nil && fn.Parent().Pkg != nil {
			env.pkg = fn.Parent().Pkg.Pkg
		}
		for k, fv := range fn.FreeVars {
			env.vars[fv.Name()] = e.val(mk.Bindings[k])
		}
		env.vars[fn.Params[0].Name()] = Val{T: a, Ty: tInt}
		env.vars[fn.Params[1].Name()] = Val{T: b, Ty: tInt}
		v, err := env.EvalVal(lessExpr)
		if err != nil {
			return "false"
		}
		return v.T
	}
	h := e.heap(e.sorts().ArrHeap(st.Elem()))
	row := sx("select", h, sx("sref", slice.T))
	n := sx("slen", slice.T)
	goal := fmt.Sprintf("(forall ((a!t Int) (b!t Int)) (=> (and (<= 0 a!t) (< a!t %s) (<= 0 b!t) (< b!t %s) (not %s) (not %s)) (= (select %s a!t) (select %s b!t))))",
		n, n, less("a!t", "b!t"), less("b!t", "a!t"), row, row)
	e.oblige(&Obligation{Name: "order.sort.total@" + e.posOf(i), Kind: "determinism",
		Clause: "the comparator used to sort an unordered collection is total on its elements (ties would keep an accidental order)",
		Tags: []string{e.prop + ".order"}, Guard: e.curGuard, Goal: goal, Pos: e.posOf(i)})
}
