package govc

import (
	"fmt"
	"go/types"
	"strings"

	"golang.org/x/tools/go/ssa"
)

// Order discipline for C10 (DESIGN §3.5, "bags"): a slice whose element order depends on map iteration order or on
// goroutine completion order is a *bag*.  A bag becomes a sequence again only by a sort whose comparator is total on
// the elements (an SMT obligation) - sort.Strings always is.  A function marked "deterministic" must not return a
// bag, store one into an object it returns, or hand one to an encoder.  The bag status is ghost state kept by the
// generator along the same pass that generates the other obligations; loop-header phis are seeded by a
// flow-insensitive pre-pass (an over-approximation).

type bagState struct {
	vals  map[ssa.Value]bool
	cells map[ssa.Value]bool // Alloc / FreeVar / Global roots holding a bag
	seed  map[ssa.Value]bool // flow-insensitive "may ever be a bag"
}

func rootOf(addr ssa.Value) ssa.Value {
	for {
		switch a := addr.(type) {
		case *ssa.FieldAddr:
			addr = a.X
			continue
		case *ssa.IndexAddr:
			if _, ok := a.X.Type().Underlying().(*types.Slice); ok {
				return a.X
			}
			addr = a.X
			continue
		}
		return addr
	}
}

func (e *FnEnc) deterministic() bool {
	return e.con != nil && e.con.Deterministic && e.prop == "C10"
}

func (e *FnEnc) inMapRange(b *ssa.BasicBlock) bool {
	for _, li := range e.loopList {
		if !li.blocks[b] {
			continue
		}
		for _, in := range li.header.Instrs {
			if nx, ok := in.(*ssa.Next); ok && !nx.IsString {
				if r, ok := nx.Iter.(*ssa.Range); ok {
					if _, isMap := r.X.Type().Underlying().(*types.Map); isMap {
						return true
					}
				}
			}
		}
	}
	return false
}

// bagInit runs the flow-insensitive pre-pass.
func (e *FnEnc) bagInit() {
	e.bags = &bagState{vals: map[ssa.Value]bool{}, cells: map[ssa.Value]bool{}, seed: map[ssa.Value]bool{}}
	if !e.deterministic() {
		return
	}
	seedCells := map[ssa.Value]bool{}
	// values that are sorted somewhere in the function count as sequences for the loops that walk them (the
	// flow-sensitive pass decides whether the sort really precedes the walk)
	sorted := map[ssa.Value]bool{}
	for _, b := range e.fn.Blocks {
		for _, in := range b.Instrs {
			if c, ok := in.(*ssa.Call); ok {
				if f := c.Call.StaticCallee(); f != nil {
					switch calleeName(f) {
					case "sort.Strings", "sort.Slice", "sort.SliceStable":
						v := c.Call.Args[0]
						if mi, ok := v.(*ssa.MakeInterface); ok {
							v = mi.X
						}
						sorted[v] = true
					}
				}
			}
		}
	}
	for _, p := range e.con.BagParams {
		for _, q := range e.fn.Params {
			if q.Name() == p {
				e.bags.seed[q] = true
				e.bags.vals[q] = true
			}
		}
	}
	changed := true
	for changed {
		changed = false
		set := func(v ssa.Value) {
			if !e.bags.seed[v] {
				e.bags.seed[v] = true
				changed = true
			}
		}
		for _, b := range e.fn.Blocks {
			for _, in := range b.Instrs {
				switch i := in.(type) {
				case *ssa.Call:
					if bi, ok := i.Call.Value.(*ssa.Builtin); ok && bi.Name() == "append" {
						if e.inMapRange(b) || e.inBagRange(b, func(v ssa.Value) bool { return e.bags.seed[v] && !sorted[v] }) || e.bags.seed[i.Call.Args[0]] || e.bags.seed[i.Call.Args[1]] || (e.con.Concurrent && e.fromFreeVar(i.Call.Args[0])) {
							set(i)
						}
					} else if e.calleeReturnsBag(&i.Call) {
						set(i)
					}
				case *ssa.Extract:
					if e.bags.seed[i.Tuple] {
						if c, ok := i.Tuple.(*ssa.Call); ok && e.calleeBagResult(&c.Call, i.Index) {
							set(i)
						}
					}
				case *ssa.Phi:
					for _, ed := range i.Edges {
						if e.bags.seed[ed] {
							set(i)
						}
					}
				case *ssa.Slice:
					if e.bags.seed[i.X] {
						set(i)
					}
				case *ssa.Store:
					if e.bags.seed[i.Val] {
						r := rootOf(i.Addr)
						if !seedCells[r] {
							seedCells[r] = true
							changed = true
						}
					}
				case *ssa.UnOp:
					if i.Op.String() == "*" && seedCells[rootOf(i.X)] {
						if _, ok := i.Type().Underlying().(*types.Slice); ok {
							set(i)
						}
					}
				}
			}
		}
	}
}

// fromFreeVar: the value is read from state shared with the enclosing function (a captured variable, or anything
// reached from one through loads, fields and elements).
func (e *FnEnc) fromFreeVar(v ssa.Value) bool {
	for depth := 0; depth < 16; depth++ {
		switch x := v.(type) {
		case *ssa.FreeVar:
			return true
		case *ssa.UnOp:
			v = x.X
		case *ssa.FieldAddr:
			v = x.X
		case *ssa.IndexAddr:
			v = x.X
		case *ssa.Field:
			v = x.X
		case *ssa.Slice:
			v = x.X
		default:
			return false
		}
	}
	return false
}

// inBagRange: the block belongs to a loop that walks an unordered collection (it indexes a bag defined outside it).
func (e *FnEnc) inBagRange(b *ssa.BasicBlock, isBag func(ssa.Value) bool) bool {
	for _, li := range e.loopList {
		if !li.blocks[b] {
			continue
		}
		for lb := range li.blocks {
			for _, in := range lb.Instrs {
				if ia, ok := in.(*ssa.IndexAddr); ok && isBag(ia.X) {
					if def, ok := ia.X.(ssa.Instruction); !ok || !li.blocks[def.Block()] {
						return true
					}
				}
			}
		}
	}
	return false
}

func (e *FnEnc) calleeContract(c *ssa.CallCommon) *FuncContract {
	if f := c.StaticCallee(); f != nil {
		return e.W.ContractFor(f)
	}
	return nil
}

func (e *FnEnc) calleeReturnsBag(c *ssa.CallCommon) bool {
	con := e.calleeContract(c)
	return con != nil && len(con.BagResults) > 0
}

func (e *FnEnc) calleeBagResult(c *ssa.CallCommon, idx int) bool {
	con := e.calleeContract(c)
	if con == nil {
		return false
	}
	for _, r := range con.BagResults {
		if r == idx {
			return true
		}
	}
	return false
}

func (e *FnEnc) isBag(v ssa.Value) bool { return e.bags.vals[v] }

func (e *FnEnc) bagViolation(what string, in ssa.Instruction) {
	e.oblige(&Obligation{Name: fmt.Sprintf("order.%s@%s", mangle(what), e.posOf(in)), Kind: "determinism",
		Clause: what + ": the element order depends on map iteration or goroutine completion order and no total sort intervenes",
		Tags: []string{"C10.order"}, Guard: e.curGuard, Goal: "false", Pos: e.posOf(in)})
}

// bagInstr updates the bag state for one instruction (called after the instruction has been encoded).
func (e *FnEnc) bagInstr(in ssa.Instruction) {
	if e.bags == nil || !e.deterministic() {
		return
	}
	b := e.bags
	switch i := in.(type) {
	case *ssa.Phi:
		if e.loops[i.Block()] != nil {
			b.vals[i] = b.seed[i]
			return
		}
		for _, ed := range i.Edges {
			if b.vals[ed] {
				b.vals[i] = true
			}
		}
	case *ssa.Slice:
		if b.vals[i.X] {
			b.vals[i] = true
		}
	case *ssa.Extract:
		if c, ok := i.Tuple.(*ssa.Call); ok && e.calleeBagResult(&c.Call, i.Index) {
			b.vals[i] = true
		}
	case *ssa.Store:
		r := rootOf(i.Addr)
		if _, isSlice := i.Val.Type().Underlying().(*types.Slice); isSlice {
			if b.vals[i.Val] && e.con.Concurrent && e.fromFreeVar(i.Addr) {
				e.bagViolation("a concurrently running function stores an unordered collection into shared state", i)
			}
			if b.vals[i.Val] {
				b.cells[r] = true
			} else if _, direct := i.Addr.(*ssa.Alloc); direct {
				b.cells[r] = false // the cell is overwritten by a sequence
			}
		}
	case *ssa.UnOp:
		if i.Op.String() == "*" {
			if _, ok := i.Type().Underlying().(*types.Slice); ok && b.cells[rootOf(i.X)] {
				b.vals[i] = true
			}
		}
	case *ssa.Call:
		e.bagCall(i)
	case *ssa.Return:
		e.oblige(&Obligation{Name: "order.return-checked@" + e.posOf(i), Kind: "determinism", Clause: "no unordered collection reaches this return (order discipline: bags, total sorts)",
			Tags: []string{"C10.order"}, Guard: e.curGuard, Goal: "true", Pos: e.posOf(i)})
		for k, r := range i.Results {
			allowed := false
			for _, br := range e.con.BagResults {
				if br == k {
					allowed = true
				}
			}
			if allowed {
				continue
			}
			if b.vals[r] {
				e.bagViolation(fmt.Sprintf("result %d is returned as an unordered collection", k), i)
			}
			if _, isPtr := r.Type().Underlying().(*types.Pointer); isPtr && b.cells[rootOf(r)] {
				e.bagViolation(fmt.Sprintf("result %d points to an object holding an unordered collection", k), i)
			}
		}
	}
}

func (e *FnEnc) bagCall(i *ssa.Call) {
	b := e.bags
	c := &i.Call
	if bi, ok := c.Value.(*ssa.Builtin); ok {
		if bi.Name() == "append" {
			if e.inMapRange(i.Block()) || e.inBagRange(i.Block(), func(v ssa.Value) bool { return b.vals[v] }) || b.vals[c.Args[0]] || b.vals[c.Args[1]] || (e.con.Concurrent && e.fromFreeVar(c.Args[0])) {
				b.vals[i] = true
			}
		}
		return
	}
	f := c.StaticCallee()
	name := ""
	if f != nil {
		name = calleeName(f)
	}
	cleanse := func(v ssa.Value) {
		b.vals[v] = false
		if u, ok := v.(*ssa.UnOp); ok {
			b.cells[rootOf(u.X)] = false
		}
		if mi, ok := v.(*ssa.MakeInterface); ok {
			b.vals[mi.X] = false
			if u, ok := mi.X.(*ssa.UnOp); ok {
				b.cells[rootOf(u.X)] = false
			}
		}
	}
	switch name {
	case "sort.Strings":
		cleanse(c.Args[0])
		return
	case "sort.Slice", "sort.SliceStable":
		var sl ssa.Value
		if mi, ok := c.Args[0].(*ssa.MakeInterface); ok {
			sl = mi.X
		}
		if sl != nil && b.vals[sl] {
			e.sortTotality(i, sl)
		}
		cleanse(c.Args[0])
		return
	}
	if e.calleeReturnsBag(c) {
		if _, isTup := i.Type().(*types.Tuple); !isTup {
			b.vals[i] = true
		}
	}
	// a bag handed to an encoder or printer reaches the output in its accidental order
	if strings.Contains(name, "encoding/json") || (c.IsInvoke() && c.Method.Name() == "Encode") {
		for _, a := range c.Args {
			v := a
			if mi, ok := a.(*ssa.MakeInterface); ok {
				v = mi.X
			}
			if b.vals[v] || b.cells[rootOf(v)] {
				e.bagViolation("an unordered collection is encoded", i)
			}
			if u, ok := v.(*ssa.UnOp); ok && b.cells[rootOf(u.X)] {
				e.bagViolation("an object holding an unordered collection is encoded", i)
			}
		}
	}
}

// sortTotality: sorting a bag yields a determined sequence only if the comparator is total on the elements:
// elements that are incomparable under it are equal.
func (e *FnEnc) sortTotality(i *ssa.Call, sl ssa.Value) {
	c := &i.Call
	mk := e.closureOf(c.Args[1])
	st, _ := sl.Type().Underlying().(*types.Slice)
	if mk == nil || st == nil {
		e.bagViolation("a bag is sorted with a comparator that is not a function literal", i)
		return
	}
	fn := mk.Fn.(*ssa.Function)
	con := e.W.ContractFor(fn)
	var lessExpr Expr
	if con != nil {
		for _, cl := range con.Ensures {
			if bx, ok := cl.Expr.(*EBinary); ok && (bx.Op == "==" || bx.Op == "<==>") {
				if id, ok := bx.X.(*EIdent); ok && id.Name == "result" {
					lessExpr = bx.Y
				}
			}
		}
	}
	if lessExpr == nil {
		e.bagViolation("a bag is sorted with a comparator that has no contract 'ensures result == E'", i)
		return
	}
	slice := e.val(sl)
	// the sort model has already replaced the row; totality is stated over the sorted row (a permutation of the input)
	less := func(a, b string) string {
		env := &Env{e: e, st: e.cur, old: e.cur, vars: map[string]Val{}, guard: e.curGuard}
		if fn.Parent() != nil && fn.Parent().Pkg != nil {
			env.pkg = fn.Parent().Pkg.Pkg
		}
		for k, fv := range fn.FreeVars {
			env.vars[fv.Name()] = e.val(mk.Bindings[k])
		}
		env.vars[fn.Params[0].Name()] = Val{T: a, Ty: tInt}
		env.vars[fn.Params[1].Name()] = Val{T: b, Ty: tInt}
		v, err := env.EvalVal(lessExpr)
		if err != nil {
			return "false"
		}
		return v.T
	}
	h := e.heap(e.sorts().ArrHeap(st.Elem()))
	row := sx("select", h, sx("sref", slice.T))
	n := sx("slen", slice.T)
	goal := fmt.Sprintf("(forall ((a!t Int) (b!t Int)) (=> (and (<= 0 a!t) (< a!t %s) (<= 0 b!t) (< b!t %s) (not %s) (not %s)) (= (select %s a!t) (select %s b!t))))",
		n, n, less("a!t", "b!t"), less("b!t", "a!t"), row, row)
	e.oblige(&Obligation{Name: "order.sort.total@" + e.posOf(i), Kind: "determinism",
		Clause: "the comparator used to sort an unordered collection is total on its elements (ties would keep an accidental order)",
		Tags: []string{"C10.order"}, Guard: e.curGuard, Goal: goal, Pos: e.posOf(i)})
}
