package main

import (
	"flag"
	"fmt"
	"os"
	"strconv"

	"govc"
)

func main() {
	if len(os.Args) < 2 {
		fmt.Println("usage: govc check|dump ...")
		os.Exit(2)
	}
	switch os.Args[1] {
	case "check":
		fs := flag.NewFlagSet("check", flag.ExitOnError)
		var o govc.CheckOpts
		fs.StringVar(&o.Repo, "repo", "/repo", "repository")
		fs.StringVar(&o.Verif, "verif", "/verif", "verif dir")
		fs.StringVar(&o.Prop, "property", "", "property id")
		fs.StringVar(&o.Tier, "tier", "quick", "quick|thorough")
		fs.BoolVar(&o.Verbose, "v", false, "verbose")
		fs.StringVar(&o.Only, "only", "", "only this function")
		fs.StringVar(&o.KeepSMT, "keep", "", "keep SMT files in dir")
		fs.IntVar(&o.TimeoutS, "timeout", 0, "per-obligation timeout (s)")
		fs.StringVar(&o.Out, "out", "", "write evidence/ and replays/ under this directory instead of -verif")
		fs.Parse(os.Args[2:])
		if s := os.Getenv("VERIF_SEED"); s != "" {
			o.Seed, _ = strconv.Atoi(s)
		}
		os.Exit(govc.RunCheck(o))
	case "names":
		fs := flag.NewFlagSet("names", flag.ExitOnError)
		repo := fs.String("repo", "/repo", "repository")
		verif := fs.String("verif", "/verif", "verif dir")
		fs.Parse(os.Args[2:])
		if err := govc.WriteNames(*repo, *verif); err != nil {
			fmt.Println("govc names:", err)
			os.Exit(2)
		}
	case "dump":
		govc.Dump(os.Args[2], os.Args[3:])
	}
}
