package govc

import (
	"bytes"
	"context"
	"encoding/json"
	"fmt"
	"go/types"
	"math"
	"math/big"
	"os"
	"os/exec"
	"path/filepath"
	"sort"
	"strconv"
	"strings"
	"time"

	"golang.org/x/tools/go/ssa"
)

// Replay of counterexamples against the real code.
//
// For a failed obligation of a function whose parameters are built from numbers, strings, booleans, slices, maps,
// structs and pointers to structs, the solver is asked again for a *small* concrete input: the obligation's query
// plus template constraints (slice lengths and map sizes bounded, map domains enumerated by fresh key constants), so
// that the input is read back with scalar get-value terms only - no array model has to be parsed. From the values an
// in-package Go test is generated that builds the input, calls the real function and evaluates every active
// `ensures` clause of the function's contract, translated from the contract language to Go. The test is injected with
// `go test -overlay` (nothing is written to the repository) and run against the current working tree. A clause that
// evaluates to false on the real result is a failing input of the real code: the VIOLATION is then reported with the
// replay test instead of `no-failing-input-found`.
//
// Not replayable (the VIOLATION keeps `no-failing-input-found`, the reason is recorded in the replay file): function
// literals, parameters of interface / function / channel type or owned by go/ssa and go/types, clauses over ghost
// state, uninterpreted functions or unbounded quantifiers, protocol obligations, and models that do not reproduce
// (a failed invariant's model is an arbitrary loop state, not necessarily reachable from the function's inputs).

const (
	rpMaxSlice = 3
	rpMaxKeys  = 3
	rpMaxDepth = 4
)

type rpNode struct {
	kind   string // int float string bool ptr slice map struct
	ty     types.Type
	term   string // SMT term of the value (scalar kinds, ptr/map: the reference, slice: the Slice value)
	fields []*rpNode
	elems  []*rpNode
	keys   []rpKey
	target *rpNode // ptr: the struct it points to
	known  bool    // the heap the content lives in is part of the query (otherwise: zero content)
}

type rpKey struct {
	used string // Bool constant
	key  *rpNode
	val  *rpNode
}

type replayer struct {
	e       *FnEnc
	extra   []string          // template declarations and constraints
	terms   []string          // terms to get-value, in order
	index   map[string]int    // term -> position
	vals    []string          // values read back
	n       int
	imports map[string]string // import path -> name
	pkg     *types.Package
	stmts   []string
	objs    map[string]string // "kind/type/ref" -> Go variable
	nv      int
	reason  string
	bounds  []string // soft bounds on integer and string leaves
}

func (r *replayer) ask(term string) {
	if _, ok := r.index[term]; !ok {
		r.index[term] = len(r.terms)
		r.terms = append(r.terms, term)
	}
}

func (r *replayer) val(term string) string {
	if i, ok := r.index[term]; ok && i < len(r.vals) {
		return r.vals[i]
	}
	return ""
}

func (r *replayer) heap0(hv HeapVar) (string, bool) {
	if _, ok := r.e.heapVars[hv.Name]; !ok {
		return "", false
	}
	if t, ok := r.e.initState[hv.Name]; ok {
		return t, true
	}
	return hv.Name + "@0", true
}

func replayableType(t types.Type, depth int) bool {
	if depth > 8 {
		return false
	}
	if n, ok := t.(*types.Named); ok && n.Obj().Pkg() != nil {
		switch n.Obj().Pkg().Path() {
		case "golang.org/x/tools/go/ssa", "go/types", "go/ast", "go/token", "go/constant", "sync", "strings", "bytes", "os", "io", "time", "github.com/cockroachdb/pebble":
			return false
		}
	}
	switch u := t.Underlying().(type) {
	case *types.Basic:
		return u.Info()&(types.IsBoolean|types.IsInteger|types.IsFloat|types.IsString) != 0
	case *types.Pointer:
		_, isStruct := u.Elem().Underlying().(*types.Struct)
		return isStruct && replayableType(u.Elem(), depth+1)
	case *types.Slice:
		return replayableType(u.Elem(), depth+1)
	case *types.Map:
		return replayableType(u.Key(), depth+1) && replayableType(u.Elem(), depth+1)
	case *types.Struct:
		// fields of other kinds are left at their zero value
		return true
	}
	return false
}

// node builds the skeleton of one input value.
func (r *replayer) node(t types.Type, term string, depth int) *rpNode {
	s := r.e.sorts()
	n := &rpNode{ty: t, term: term, known: true}
	switch u := t.Underlying().(type) {
	case *types.Basic:
		switch {
		case u.Info()&types.IsBoolean != 0:
			n.kind = "bool"
		case u.Info()&types.IsInteger != 0:
			n.kind = "int"
			r.bounds = append(r.bounds, fmt.Sprintf("(and (<= (- 1000) %s) (<= %s 1000))", term, term))
		case u.Info()&types.IsFloat != 0:
			n.kind = "float"
		case u.Info()&types.IsString != 0:
			n.kind = "string"
			r.bounds = append(r.bounds, fmt.Sprintf("(<= (str.len %s) 8)", term))
		default:
			return nil
		}
		r.ask(term)
	case *types.Struct:
		n.kind = "struct"
		for i := 0; i < u.NumFields(); i++ {
			ft := u.Field(i).Type()
			if !replayableType(ft, 0) || depth >= rpMaxDepth {
				n.fields = append(n.fields, nil)
				continue
			}
			n.fields = append(n.fields, r.node(ft, s.GetField(t, term, i), depth+1))
		}
	case *types.Pointer:
		n.kind = "ptr"
		r.ask(term)
		h, ok := r.heap0(s.StructHeap(u.Elem()))
		if !ok {
			n.known = false
			return n
		}
		if depth < rpMaxDepth {
			n.target = r.node(u.Elem(), sx("select", h, term), depth+1)
		}
	case *types.Slice:
		n.kind = "slice"
		r.ask(sx("sref", term))
		r.ask(sx("slen", term))
		r.extra = append(r.extra, fmt.Sprintf("(assert (<= (slen %s) %d))", term, rpMaxSlice))
		h, ok := r.heap0(s.ArrHeap(u.Elem()))
		if !ok {
			n.known = false
			return n
		}
		if depth < rpMaxDepth {
			for i := 0; i < rpMaxSlice; i++ {
				n.elems = append(n.elems, r.node(u.Elem(), sx("select", sx("select", h, sx("sref", term)), fmt.Sprint(i)), depth+1))
			}
		}
	case *types.Map:
		n.kind = "map"
		r.ask(term)
		md, ok1 := r.heap0(s.MapDom(u.Key()))
		mv, ok2 := r.heap0(s.MapVal(u.Key(), u.Elem()))
		if !ok1 {
			n.known = false
			return n
		}
		ks := s.SortOf(u.Key())
		var alts []string
		for i := 0; i < rpMaxKeys; i++ {
			r.n++
			kc, uc := fmt.Sprintf("rp.k!%d", r.n), fmt.Sprintf("rp.u!%d", r.n)
			r.extra = append(r.extra, fmt.Sprintf("(declare-fun %s () %s)", kc, ks), fmt.Sprintf("(declare-fun %s () Bool)", uc))
			r.extra = append(r.extra, fmt.Sprintf("(assert (=> %s (select (select %s %s) %s)))", uc, md, term, kc))
			for _, prev := range n.keys {
				r.extra = append(r.extra, fmt.Sprintf("(assert (=> (and %s %s) (not (= %s %s))))", uc, prev.used, kc, prev.key.term))
			}
			alts = append(alts, fmt.Sprintf("(and %s (= k!rp %s))", uc, kc))
			r.ask(uc)
			k := rpKey{used: uc, key: r.node(u.Key(), kc, depth+1)}
			if ok2 && depth < rpMaxDepth {
				k.val = r.node(u.Elem(), sx("select", sx("select", mv, term), kc), depth+1)
			}
			n.keys = append(n.keys, k)
		}
		r.extra = append(r.extra, fmt.Sprintf("(assert (=> (not (= %s 0)) (forall ((k!rp %s)) (=> (select (select %s %s) k!rp) (or %s)))))", term, ks, md, term, strings.Join(alts, " ")))
	default:
		return nil
	}
	return n
}

// ---------------------------------------------------------------- reading values back

func parseSMTInt(v string) (int64, bool) {
	v = strings.TrimSpace(v)
	if es, ok := sexprSplit(v); ok && len(es) == 2 && es[0] == "-" {
		x, ok := parseSMTInt(es[1])
		return -x, ok
	}
	x, err := strconv.ParseInt(v, 10, 64)
	return x, err == nil
}

func parseSMTReal(v string) (*big.Rat, bool) {
	v = strings.TrimSpace(v)
	if es, ok := sexprSplit(v); ok {
		switch {
		case len(es) == 2 && es[0] == "-":
			x, ok := parseSMTReal(es[1])
			if !ok {
				return nil, false
			}
			return new(big.Rat).Neg(x), true
		case len(es) == 3 && es[0] == "/":
			a, ok1 := parseSMTReal(es[1])
			b, ok2 := parseSMTReal(es[2])
			if !ok1 || !ok2 || b.Sign() == 0 {
				return nil, false
			}
			return new(big.Rat).Quo(a, b), true
		}
		return nil, false
	}
	x, ok := new(big.Rat).SetString(strings.TrimSuffix(v, "?"))
	return x, ok
}

func parseSMTString(v string) (string, bool) {
	v = strings.TrimSpace(v)
	if len(v) < 2 || v[0] != '"' || v[len(v)-1] != '"' {
		return "", false
	}
	in := strings.ReplaceAll(v[1:len(v)-1], `""`, `"`)
	var b strings.Builder
	for i := 0; i < len(in); i++ {
		if in[i] == '\\' && i+2 < len(in) && in[i+1] == 'u' {
			j := i + 2
			hex := ""
			if in[j] == '{' {
				k := strings.IndexByte(in[j:], '}')
				if k < 0 {
					return "", false
				}
				hex = in[j+1 : j+k]
				j += k + 1
			} else if j+4 <= len(in) {
				hex = in[j : j+4]
				j += 4
			}
			c, err := strconv.ParseUint(hex, 16, 32)
			if err != nil {
				return "", false
			}
			if c < 256 {
				b.WriteByte(byte(c)) // the model's strings are byte strings (A5)
			} else {
				b.WriteRune(rune(c))
			}
			i = j - 1
			continue
		}
		b.WriteByte(in[i])
	}
	return b.String(), true
}

func goFloat(v string) (string, bool) {
	v = strings.TrimSpace(v)
	switch v {
	case "fnan":
		return "math.NaN()", true
	case "fpinf":
		return "math.Inf(1)", true
	case "fninf":
		return "math.Inf(-1)", true
	}
	es, ok := sexprSplit(v)
	if !ok || len(es) != 2 || es[0] != "fin" {
		return "", false
	}
	q, ok := parseSMTReal(es[1])
	if !ok {
		return "", false
	}
	f, _ := q.Float64()
	if math.IsInf(f, 0) {
		return "", false
	}
	return strconv.FormatFloat(f, 'g', -1, 64), true
}

// ---------------------------------------------------------------- Go construction

func (r *replayer) typeStr(t types.Type) string {
	return types.TypeString(t, func(p *types.Package) string {
		if p == r.pkg {
			return ""
		}
		r.imports[p.Path()] = p.Name()
		return p.Name()
	})
}

func (r *replayer) fresh() string {
	r.nv++
	return fmt.Sprintf("zv%d", r.nv)
}

func (r *replayer) fieldSettable(st *types.Struct, i int, owner types.Type) bool {
	f := st.Field(i)
	if f.Exported() {
		return true
	}
	return f.Pkg() == r.pkg
}

// build returns a Go expression for the node's value (emitting statements for objects).
func (r *replayer) build(n *rpNode) (string, bool) {
	if n == nil {
		return "", false
	}
	switch n.kind {
	case "bool":
		return r.val(n.term), r.val(n.term) == "true" || r.val(n.term) == "false"
	case "int":
		x, ok := parseSMTInt(r.val(n.term))
		if !ok || x > 1000000 || x < -1000000 {
			r.reason = "integer outside the replay range in the model"
			return "", false
		}
		if b, isB := n.ty.Underlying().(*types.Basic); isB && b.Info()&types.IsUnsigned != 0 && x < 0 {
			return "", false
		}
		return fmt.Sprintf("%s(%d)", r.typeStr(n.ty), x), true
	case "float":
		f, ok := goFloat(r.val(n.term))
		if !ok {
			r.reason = "float value not representable: " + r.val(n.term)
			return "", false
		}
		return fmt.Sprintf("%s(%s)", r.typeStr(n.ty), f), true
	case "string":
		s, ok := parseSMTString(r.val(n.term))
		if !ok {
			return "", false
		}
		return fmt.Sprintf("%s(%s)", r.typeStr(n.ty), strconv.Quote(s)), true
	case "struct":
		v := r.fresh()
		r.stmts = append(r.stmts, fmt.Sprintf("var %s %s", v, r.typeStr(n.ty)))
		r.fill(v, n)
		return v, true
	case "ptr":
		ref, ok := parseSMTInt(r.val(n.term))
		if !ok {
			return "", false
		}
		if ref == 0 {
			return "nil", true
		}
		key := fmt.Sprintf("ptr/%s/%d", n.ty.String(), ref)
		if v, ok := r.objs[key]; ok {
			return v, true
		}
		v := r.fresh()
		r.objs[key] = v
		elem := n.ty.Underlying().(*types.Pointer).Elem()
		r.stmts = append(r.stmts, fmt.Sprintf("%s := new(%s)", v, r.typeStr(elem)))
		if n.target != nil {
			r.fill("(*"+v+")", n.target)
		}
		return v, true
	case "slice":
		ref, ok1 := parseSMTInt(r.val(sx("sref", n.term)))
		ln, ok2 := parseSMTInt(r.val(sx("slen", n.term)))
		if !ok1 || !ok2 {
			return "", false
		}
		if ref == 0 || ln < 0 {
			return "nil", true
		}
		key := fmt.Sprintf("slice/%s/%d/%d", n.ty.String(), ref, ln)
		if v, ok := r.objs[key]; ok {
			return v, true
		}
		v := r.fresh()
		r.objs[key] = v
		r.stmts = append(r.stmts, fmt.Sprintf("%s := make(%s, %d)", v, r.typeStr(n.ty), ln))
		for i := 0; i < int(ln) && i < len(n.elems); i++ {
			if x, ok := r.build(n.elems[i]); ok {
				r.stmts = append(r.stmts, fmt.Sprintf("%s[%d] = %s", v, i, x))
			}
		}
		return v, true
	case "map":
		ref, ok := parseSMTInt(r.val(n.term))
		if !ok {
			return "", false
		}
		if ref == 0 {
			return "nil", true
		}
		key := fmt.Sprintf("map/%s/%d", n.ty.String(), ref)
		if v, ok := r.objs[key]; ok {
			return v, true
		}
		v := r.fresh()
		r.objs[key] = v
		r.stmts = append(r.stmts, fmt.Sprintf("%s := make(%s)", v, r.typeStr(n.ty)))
		for _, k := range n.keys {
			if r.val(k.used) != "true" {
				continue
			}
			kx, ok := r.build(k.key)
			if !ok {
				continue
			}
			vx := ""
			if k.val != nil {
				vx, ok = r.build(k.val)
			}
			if k.val == nil || !ok {
				vx = "*new(" + r.typeStr(n.ty.Underlying().(*types.Map).Elem()) + ")"
			}
			r.stmts = append(r.stmts, fmt.Sprintf("%s[%s] = %s", v, kx, vx))
		}
		return v, true
	}
	return "", false
}

func (r *replayer) fill(v string, n *rpNode) {
	st := n.ty.Underlying().(*types.Struct)
	for i, f := range n.fields {
		if f == nil || !r.fieldSettable(st, i, n.ty) {
			continue
		}
		if x, ok := r.build(f); ok && x != "nil" {
			r.stmts = append(r.stmts, fmt.Sprintf("%s.%s = %s", v, st.Field(i).Name(), x))
		}
	}
}

// ---------------------------------------------------------------- contract language -> Go

type goTr struct {
	r     *replayer
	w     *World
	pkg   *types.Package
	olds  []string // Go expressions evaluated before the call
	preds map[string]bool
	bound map[string]bool // identifiers that are Go variables in scope (parameters, results, quantified variables)
	predSrc  map[string]string // translated predicate definitions
	predFail map[string]string // predicates that have no Go counterpart, with the reason
	predBusy map[string]bool
}

// needPred translates predicate name (once); a clause that uses an untranslatable predicate is itself untranslatable.
func (t *goTr) needPred(name string) {
	if t.predSrc == nil {
		t.predSrc, t.predFail, t.predBusy = map[string]string{}, map[string]string{}, map[string]bool{}
	}
	if why, bad := t.predFail[name]; bad {
		t.fail("predicate %s: %s", name, why)
	}
	if _, ok := t.predSrc[name]; ok || t.predBusy[name] {
		return
	}
	t.predBusy[name] = true
	defer delete(t.predBusy, name)
	p := t.w.Contracts.Preds[name]
	saved := t.bound
	t.bound = map[string]bool{}
	var ps []string
	for _, q := range p.Params {
		t.bound[q.Name] = true
		ps = append(ps, q.Name+" "+q.Type)
		for _, imp := range t.pkg.Imports() {
			if strings.Contains(q.Type, imp.Name()+".") {
				t.r.imports[imp.Path()] = imp.Name()
			}
		}
	}
	body, err := t.try(p.Body)
	t.bound = saved
	if err != "" {
		t.predFail[name] = err
		t.fail("predicate %s: %s", name, err)
	}
	t.predSrc[name] = fmt.Sprintf("func zzpred_%s(%s) bool { return %s }\n", name, strings.Join(ps, ", "), body)
}

type trErr struct{ msg string }

func (t *goTr) fail(f string, a ...interface{}) { panic(trErr{fmt.Sprintf(f, a...)}) }

func (t *goTr) expr(e Expr) string {
	switch n := e.(type) {
	case *EIdent:
		if t.bound[n.Name] {
			return n.Name
		}
		if strings.HasPrefix(n.Name, "#") || strings.HasPrefix(n.Name, "%") {
			t.fail("loop-scoped name %s", n.Name)
		}
		if p, ok := t.w.Contracts.Preds[n.Name]; ok && len(p.Params) == 0 {
			t.needPred(n.Name)
			return "zzpred_" + n.Name + "()"
		}
		if obj := t.pkg.Scope().Lookup(n.Name); obj != nil {
			switch obj.(type) {
			case *types.Const, *types.Var:
				return n.Name
			}
		}
		t.fail("identifier %s is not a parameter, result or package-level name", n.Name)
	case *EInt:
		return fmt.Sprint(n.V)
	case *EFloat:
		return n.V
	case *EStr:
		return strconv.Quote(n.V)
	case *EBool:
		return fmt.Sprint(n.V)
	case *ENil:
		return "nil"
	case *EOld:
		x := t.expr(n.X)
		t.olds = append(t.olds, x)
		return fmt.Sprintf("zzold%d", len(t.olds))
	case *EUnary:
		x := t.expr(n.X)
		switch n.Op {
		case "!", "-", "*":
			return "(" + n.Op + x + ")"
		}
		t.fail("unary %s", n.Op)
	case *EBinary:
		if n.Op == "in" {
			if c, ok := n.Y.(*ECall); ok && c.Fun == "keys" && len(c.Args) == 1 {
				return fmt.Sprintf("zzhas(%s, %s)", t.expr(c.Args[0]), t.expr(n.X))
			}
			return fmt.Sprintf("zzhas(%s, %s)", t.expr(n.Y), t.expr(n.X))
		}
		// sref(x) == 0  /  != 0
		if c, ok := n.X.(*ECall); ok && c.Fun == "sref" && (n.Op == "==" || n.Op == "!=") {
			if z, ok := n.Y.(*EInt); ok && z.V == 0 {
				return fmt.Sprintf("(%s %s nil)", t.expr(c.Args[0]), n.Op)
			}
		}
		x, y := t.expr(n.X), t.expr(n.Y)
		switch n.Op {
		case "==>":
			return fmt.Sprintf("(!(%s) || (%s))", x, y)
		case "<==>":
			return fmt.Sprintf("((%s) == (%s))", x, y)
		case "&&", "||", "==", "!=", "<", "<=", ">", ">=", "+", "-", "*", "/", "%":
			return fmt.Sprintf("(%s %s %s)", x, n.Op, y)
		}
		t.fail("operator %s", n.Op)
	case *EField:
		if id, ok := n.X.(*EIdent); ok && !t.bound[id.Name] {
			for _, imp := range t.pkg.Imports() {
				if imp.Name() == id.Name {
					t.r.imports[imp.Path()] = imp.Name()
					return id.Name + "." + n.Name
				}
			}
		}
		return t.expr(n.X) + "." + n.Name
	case *EIndex:
		return fmt.Sprintf("%s[%s]", t.expr(n.X), t.expr(n.I))
	case *EQuant:
		if len(n.Vars) == 0 {
			t.fail("quantifier without variables")
		}
		var open, close []string
		for _, v := range n.Vars {
			t.bound[v.Name] = true
			switch {
			case v.Lo != nil && v.Hi != nil:
				open = append(open, fmt.Sprintf("for %s := %s; %s < %s; %s++ {", v.Name, t.expr(v.Lo), v.Name, t.expr(v.Hi), v.Name))
			case v.Keys != nil:
				k := v.Keys
				if c, ok := k.(*ECall); ok && c.Fun == "keys" && len(c.Args) == 1 {
					k = c.Args[0]
				}
				open = append(open, fmt.Sprintf("for %s := range %s {", v.Name, t.expr(k)))
			default:
				t.fail("unbounded quantifier over %s", v.Type)
			}
			close = append(close, "}")
		}
		body := t.expr(n.Body)
		for _, v := range n.Vars {
			delete(t.bound, v.Name)
		}
		if n.Forall {
			return fmt.Sprintf("func() bool { %s if !(%s) { return false }; %s; return true }()", strings.Join(open, " "), body, strings.Join(close, " "))
		}
		return fmt.Sprintf("func() bool { %s if %s { return true }; %s; return false }()", strings.Join(open, " "), body, strings.Join(close, " "))
	case *ECall:
		arg := func(i int) string { return t.expr(n.Args[i]) }
		need := func(k int) {
			if len(n.Args) != k {
				t.fail("%s expects %d arguments", n.Fun, k)
			}
		}
		switch n.Fun {
		case "len":
			need(1)
			return "len(" + arg(0) + ")"
		case "contains":
			need(2)
			t.r.imports["strings"] = "strings"
			return fmt.Sprintf("strings.Contains(%s, %s)", arg(0), arg(1))
		case "hasPrefix":
			need(2)
			t.r.imports["strings"] = "strings"
			return fmt.Sprintf("strings.HasPrefix(%s, %s)", arg(0), arg(1))
		case "hasSuffix":
			need(2)
			t.r.imports["strings"] = "strings"
			return fmt.Sprintf("strings.HasSuffix(%s, %s)", arg(0), arg(1))
		case "upper":
			need(1)
			t.r.imports["strings"] = "strings"
			return "strings.ToUpper(" + arg(0) + ")"
		case "lower":
			need(1)
			t.r.imports["strings"] = "strings"
			return "strings.ToLower(" + arg(0) + ")"
		case "itoa":
			need(1)
			t.r.imports["strconv"] = "strconv"
			return "strconv.Itoa(" + arg(0) + ")"
		case "finite":
			need(1)
			return fmt.Sprintf("(!math.IsNaN(float64(%s)) && !math.IsInf(float64(%s), 0))", arg(0), arg(0))
		case "isNaN":
			need(1)
			return "math.IsNaN(float64(" + arg(0) + "))"
		case "isInf":
			need(1)
			return "math.IsInf(float64(" + arg(0) + "), 0)"
		case "fabs":
			need(1)
			return "math.Abs(float64(" + arg(0) + "))"
		case "abs":
			need(1)
			return "zzabs(" + arg(0) + ")"
		case "min", "max":
			need(2)
			return fmt.Sprintf("%s(%s, %s)", n.Fun, arg(0), arg(1))
		case "ite":
			need(3)
			return fmt.Sprintf("zzite(%s, %s, %s)", arg(0), arg(1), arg(2))
		case "seqeq":
			need(2)
			t.r.imports["slices"] = "slices"
			return fmt.Sprintf("slices.Equal(%s, %s)", arg(0), arg(1))
		case "fresh", "allocated", "freshSincePre":
			return "true"
		case "errmsg":
			need(1)
			return arg(0) + ".Error()"
		case "keys":
			t.fail("keys() outside a quantifier or membership test")
		}
		if p, ok := t.w.Contracts.Preds[n.Fun]; ok {
			if p.Opaque && false {
				t.fail("opaque predicate")
			}
			if len(p.Params) != len(n.Args) {
				t.fail("predicate %s arity", n.Fun)
			}
			t.needPred(n.Fun)
			var as []string
			for i := range n.Args {
				as = append(as, arg(i))
			}
			return fmt.Sprintf("zzpred_%s(%s)", n.Fun, strings.Join(as, ", "))
		}
		t.fail("%s(...) has no Go counterpart (uninterpreted, ghost or heap-model builtin)", n.Fun)
	}
	t.fail("expression form %T", e)
	return ""
}

// try translates e, returning an error text instead of panicking.
func (t *goTr) try(e Expr) (s string, err string) {
	defer func() {
		if x := recover(); x != nil {
			if te, ok := x.(trErr); ok {
				err = te.msg
				return
			}
			panic(x)
		}
	}()
	return t.expr(e), ""
}

// predDefs renders the translated predicates as Go functions.
func (t *goTr) predDefs() (string, string) {
	var names []string
	for n := range t.predSrc {
		names = append(names, n)
	}
	sort.Strings(names)
	var b strings.Builder
	for _, n := range names {
		b.WriteString(t.predSrc[n])
	}
	return b.String(), ""
}

// ---------------------------------------------------------------- driver

type ReplayOutcome struct {
	Applicable bool   `json:"applicable"`
	Reason     string `json:"reason,omitempty"`
	TestFile   string `json:"test_file,omitempty"`
	Command    string `json:"command,omitempty"`
	Reproduced bool   `json:"reproduced"`
	Failed     string `json:"failed_clause,omitempty"`
	Output     string `json:"output,omitempty"`
	Input      string `json:"input,omitempty"`
}

// Replay tries to turn the failed obligation into a failing input of the real code.
func Replay(o CheckOpts, w *World, res *OblResult, scratch string) ReplayOutcome {
	ob := res.obl
	if ob == nil || ob.enc == nil {
		return ReplayOutcome{Reason: "no encoding (lemma or bind failure)"}
	}
	e := ob.enc
	fn := e.fn
	if fn.Parent() != nil {
		return ReplayOutcome{Reason: "function literal: cannot be called from a test"}
	}
	if fn.Pkg == nil || e.con == nil {
		return ReplayOutcome{Reason: "no package or contract"}
	}
	switch ob.Kind {
	case "protocol", "determinism", "bind":
		return ReplayOutcome{Reason: "obligation of kind " + ob.Kind + " speaks about calls or order, not about a result value"}
	}
	if fn.TypeParams().Len() > 0 {
		return ReplayOutcome{Reason: "generic function"}
	}
	for _, p := range fn.Params {
		if !replayableType(p.Type(), 0) {
			return ReplayOutcome{Reason: fmt.Sprintf("parameter %s of type %s cannot be built from a model", p.Name(), p.Type())}
		}
	}
	r := &replayer{e: e, index: map[string]int{}, imports: map[string]string{"testing": "testing", "fmt": "fmt", "math": "math"}, pkg: fn.Pkg.Pkg, objs: map[string]string{}}
	var roots []*rpNode
	for _, p := range fn.Params {
		n := r.node(p.Type(), e.vals[p].T, 0)
		if n == nil {
			return ReplayOutcome{Reason: "parameter " + p.Name() + " has no input skeleton"}
		}
		roots = append(roots, n)
	}
	// the clauses to evaluate: every active ensures of the contract that translates to Go
	tr := &goTr{r: r, w: w, pkg: fn.Pkg.Pkg, preds: map[string]bool{}, bound: map[string]bool{}}
	for _, p := range fn.Params {
		tr.bound[p.Name()] = true
	}
	nres := fn.Signature.Results().Len()
	var resNames []string
	if nres == 1 {
		tr.bound["result"] = true
		resNames = []string{"result"}
	} else {
		for i := 0; i < nres; i++ {
			tr.bound[fmt.Sprintf("result%d", i)] = true
			resNames = append(resNames, fmt.Sprintf("result%d", i))
		}
	}
	type chk struct{ src, goexpr string }
	var checks []chk
	var skipped []string
	for _, c := range e.con.Ensures {
		if !clauseActive(c, e.prop) {
			continue
		}
		g, err := tr.try(c.Expr)
		if err != "" {
			skipped = append(skipped, c.Src+"  ("+err+")")
			continue
		}
		checks = append(checks, chk{c.Src, g})
	}
	if len(checks) == 0 {
		return ReplayOutcome{Reason: "no ensures clause of the contract translates to Go: " + strings.Join(skipped, "; ")}
	}
	// the preconditions are re-evaluated on the constructed input: a failing clause counts only inside them
	var pres []chk
	for _, c := range e.con.Requires {
		if !clauseActive(c, e.prop) {
			continue
		}
		g, err := tr.try(c.Expr)
		if err != "" {
			skipped = append(skipped, "requires "+c.Src+"  ("+err+")")
			continue
		}
		pres = append(pres, chk{c.Src, g})
	}
	predSrc, perr := tr.predDefs()
	if perr != "" {
		return ReplayOutcome{Reason: perr}
	}
	// requires clauses are assumptions of the model; they are not re-checked at run time
	// template query
	base := strings.TrimSuffix(strings.TrimSpace(ob.Query(w)), "(check-sat)")
	var vals []string
	status := ""
	for attempt := 0; attempt < 2 && vals == nil; attempt++ {
		var q strings.Builder
		q.WriteString(base)
		for _, l := range r.extra {
			q.WriteString(l + "\n")
		}
		if attempt == 0 {
			for _, b := range r.bounds {
				q.WriteString("(assert " + b + ")\n")
			}
		}
		q.WriteString("(check-sat)\n(get-value (" + strings.Join(r.terms, " ") + "))\n")
		for _, sv := range Solvers {
			file := filepath.Join(scratch, fmt.Sprintf("replay_%s.%d.smt2", mangle(res.ID), attempt))
			text := "(set-option :produce-models true)\n"
			if sv.NeedsLogic {
				text += "(set-logic ALL)\n"
			}
			os.WriteFile(file, []byte(text+q.String()), 0o644)
			sr := runSolver(context.Background(), sv, file, 15*time.Second)
			status = sr.Status
			if sr.Status == "sat" {
				out := sr.Output
				k := strings.Index(out, "(")
				if k >= 0 {
					if pairs, ok := sexprSplit(strings.TrimSpace(out[k:])); ok && len(pairs) == len(r.terms) {
						for _, p := range pairs {
							es, ok := sexprSplit(p)
							if !ok || len(es) != 2 {
								vals = nil
								break
							}
							vals = append(vals, es[1])
						}
					}
				}
				if vals != nil {
					break
				}
			}
		}
	}
	if vals == nil {
		return ReplayOutcome{Reason: "the solver gave no small concrete input for the failed obligation (template query: " + status + ")"}
	}
	r.vals = vals
	// Go test
	var args []string
	for i, p := range fn.Params {
		x, ok := r.build(roots[i])
		if !ok {
			why := r.reason
			if why == "" {
				why = "value of parameter " + p.Name() + " could not be rendered"
			}
			return ReplayOutcome{Reason: why}
		}
		r.stmts = append(r.stmts, fmt.Sprintf("var %s %s = %s", p.Name(), r.typeStr(p.Type()), x))
		args = append(args, p.Name())
	}
	call := ""
	if fn.Signature.Recv() != nil {
		call = fmt.Sprintf("%s.%s(%s)", args[0], fn.Name(), strings.Join(args[1:], ", "))
	} else {
		call = fmt.Sprintf("%s(%s)", fn.Name(), strings.Join(args, ", "))
	}
	if fn.Signature.Variadic() && len(args) > 0 {
		call = strings.TrimSuffix(call, ")") + "...)"
	}
	var b strings.Builder
	fmt.Fprintf(&b, "package %s\n\n", fn.Pkg.Pkg.Name())
	body := &strings.Builder{}
	fmt.Fprintf(body, "// Replay of obligation %s (property %s), generated by govc from the solver's counterexample.\n", res.ID, o.Prop)
	fmt.Fprintf(body, "func TestZZGovcReplay(t *testing.T) {\n")
	for _, s := range r.stmts {
		fmt.Fprintf(body, "\t%s\n", s)
	}
	for _, p := range fn.Params {
		fmt.Fprintf(body, "\t_ = %s\n", p.Name())
	}
	fmt.Fprintf(body, "\tt.Logf(\"ZZREPLAY input: %%s\", zzshow(%s))\n", strings.Join(args, ", "))
	for i, ox := range tr.olds {
		fmt.Fprintf(body, "\tzzold%d := %s\n\t_ = zzold%d\n", i+1, ox, i+1)
	}
	fmt.Fprintf(body, "\tdefer func() { if x := recover(); x != nil { t.Logf(\"ZZREPLAY panic: %%v\", x) } }()\n")
	for _, c := range pres {
		fmt.Fprintf(body, "\tif !(%s) {\n\t\tt.Logf(\"ZZREPLAY outside-precondition: %%s\", %s)\n\t\treturn\n\t}\n", c.goexpr, strconv.Quote(c.src))
	}
	if nres > 0 {
		fmt.Fprintf(body, "\t%s := %s\n", strings.Join(resNames, ", "), call)
		for _, rn := range resNames {
			fmt.Fprintf(body, "\t_ = %s\n", rn)
		}
		fmt.Fprintf(body, "\tt.Logf(\"ZZREPLAY result: %%s\", zzshow(%s))\n", strings.Join(resNames, ", "))
	} else {
		fmt.Fprintf(body, "\t%s\n", call)
	}
	fmt.Fprintf(body, "\tbad := 0\n")
	for _, c := range checks {
		fmt.Fprintf(body, "\tif !(%s) {\n\t\tbad++\n\t\tt.Logf(\"ZZREPLAY violated: %%s\", %s)\n\t}\n", c.goexpr, strconv.Quote(c.src))
	}
	fmt.Fprintf(body, "\tif bad == 0 {\n\t\tt.Logf(\"ZZREPLAY ok: %d clauses hold on this input\")\n\t}\n}\n\n", len(checks))
	body.WriteString(predSrc)
	body.WriteString(`
func zzite[T any](c bool, a, b T) T { if c { return a }; return b }
func zzabs[T int | int64 | int32 | float64](x T) T { if x < 0 { return -x }; return x }
func zzhas[K comparable, V any](m map[K]V, k K) bool { _, ok := m[k]; return ok }
func zzshow(xs ...interface{}) string {
	s := ""
	for i, x := range xs {
		if i > 0 { s += " | " }
		s += fmt.Sprintf("%+v", zzderef(x))
	}
	return s
}
func zzderef(x interface{}) interface{} { return x }
var _ = math.Abs
`)
	var imps []string
	for path, name := range r.imports {
		if filepath.Base(path) == name {
			imps = append(imps, strconv.Quote(path))
		} else {
			imps = append(imps, name+" "+strconv.Quote(path))
		}
	}
	sort.Strings(imps)
	b.WriteString("import (\n")
	for _, i := range imps {
		b.WriteString("\t" + i + "\n")
	}
	b.WriteString(")\n\n")
	b.WriteString(body.String())

	dir := filepath.Join(o.outDir(), "replays", o.Prop)
	os.MkdirAll(dir, 0o755)
	testFile := filepath.Join(dir, mangle(res.ID)+"_replay_test.go")
	os.WriteFile(testFile, []byte(b.String()), 0o644)
	rel := strings.TrimPrefix(strings.TrimPrefix(fn.Pkg.Pkg.Path(), ModulePath), "/")
	target := filepath.Join(o.Repo, rel, "zz_govc_replay_test.go")
	ov, _ := json.Marshal(map[string]interface{}{"Replace": map[string]string{target: testFile}})
	ovFile := filepath.Join(scratch, "overlay_"+mangle(res.ID)+".json")
	os.WriteFile(ovFile, ov, 0o644)
	cmdArgs := []string{"test", "-overlay", ovFile, "-vet=off", "-count=1", "-timeout", "60s", "-run", "^TestZZGovcReplay$", "-v", "./" + rel}
	ctx, cancel := context.WithTimeout(context.Background(), 180*time.Second)
	defer cancel()
	cmd := exec.CommandContext(ctx, "go", cmdArgs...)
	cmd.Dir = o.Repo
	var out bytes.Buffer
	cmd.Stdout = &out
	cmd.Stderr = &out
	_ = cmd.Run()
	oc := ReplayOutcome{Applicable: true, TestFile: testFile,
		Command: fmt.Sprintf("cd %s && echo '{\"Replace\":{\"%s\":\"%s\"}}' > /var/tmp/ov.json && go test -overlay /var/tmp/ov.json -vet=off -count=1 -run '^TestZZGovcReplay$' -v ./%s", o.Repo, target, testFile, rel)}
	var keep []string
	for _, l := range strings.Split(out.String(), "\n") {
		if k := strings.Index(l, "ZZREPLAY "); k >= 0 {
			keep = append(keep, l[k:])
			if strings.HasPrefix(l[k:], "ZZREPLAY violated: ") && oc.Failed == "" {
				oc.Failed = strings.TrimPrefix(l[k:], "ZZREPLAY violated: ")
				oc.Reproduced = true
			}
			if strings.HasPrefix(l[k:], "ZZREPLAY outside-precondition: ") {
				oc.Reason = "the constructed input does not satisfy the precondition " + strings.TrimPrefix(l[k:], "ZZREPLAY outside-precondition: ")
			}
			if strings.HasPrefix(l[k:], "ZZREPLAY input: ") {
				oc.Input = strings.TrimPrefix(l[k:], "ZZREPLAY input: ")
			}
		}
	}
	if len(keep) == 0 {
		oc.Output = firstLines(out.String(), 12)
		oc.Reason = "the generated test did not run to completion (build error or timeout)"
	} else {
		oc.Output = strings.Join(keep, "\n")
		if !oc.Reproduced && oc.Reason == "" {
			oc.Reason = "the real code satisfies every translated clause on the model's input (the model is not a reachable behaviour, or the difference lies in the arithmetic model)"
		}
	}
	if len(skipped) > 0 {
		oc.Output += "\nclauses not evaluated at run time: " + strings.Join(skipped, "; ")
	}
	return oc
}

var _ = ssa.Value(nil)
