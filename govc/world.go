package govc

import (
	"fmt"
	"go/constant"
	"go/token"
	"go/types"
	"os"
	"path/filepath"
	"sort"
	"strings"

	"golang.org/x/tools/go/packages"
	"golang.org/x/tools/go/ssa"
	"golang.org/x/tools/go/ssa/ssautil"
)

const ModulePath = "github.com/BlackVectorOps/semantic_firewall/v3"

// World holds the loaded program, the contracts and the global SMT declarations.
type World struct {
	effects  map[*ssa.Function]*Effects // inferred write sets (effects.go)
	VerifDir string
	recNames map[string][]string // recorded declaration names per function (names.go)
	recTypes map[string][]string
	Repo      string
	Prog      *ssa.Program
	Pkgs      []*packages.Package
	SSAPkgs   map[string]*ssa.Package
	Sorts     *Sorts
	Contracts *ContractSet
	ufs       map[string]string // name -> declaration
	ufOrder   []string
	typeIDs   map[string]int
	globals   map[*ssa.Global]int
	funcIDs   map[*ssa.Function]int
	funcsByKey map[string]*ssa.Function
	pure      map[string]bool
	noHeap    map[string]bool
	LoadErrs  []string
	specLits  []string
	mutGlobals map[*ssa.Global]bool
	pureResultSort map[string]string
	pureResultType map[string]types.Type
}

func LoadWorld(repo string, patterns []string, verifDir string) (*World, error) {
	cfg := &packages.Config{Mode: packages.LoadAllSyntax, Dir: repo, BuildFlags: []string{"-tags=verif"}, Env: append(os.Environ(), "GOFLAGS=-mod=mod", "GOPROXY=off")}
	pkgs, err := packages.Load(cfg, patterns...)
	if err != nil {
		return nil, err
	}
	w := &World{VerifDir: verifDir, Repo: repo, Pkgs: pkgs, SSAPkgs: map[string]*ssa.Package{}, Sorts: NewSorts(), Contracts: NewContractSet(),
		ufs: map[string]string{}, typeIDs: map[string]int{}, globals: map[*ssa.Global]int{}, funcIDs: map[*ssa.Function]int{},
		funcsByKey: map[string]*ssa.Function{}, pure: map[string]bool{}, noHeap: map[string]bool{}, pureResultSort: map[string]string{}, pureResultType: map[string]types.Type{}}
	for _, p := range pkgs {
		for _, e := range p.Errors {
			w.LoadErrs = append(w.LoadErrs, e.Error())
		}
	}
	prog, spkgs := ssautil.AllPackages(pkgs, ssa.GlobalDebug)
	prog.Build()
	w.Prog = prog
	for _, sp := range spkgs {
		if sp != nil {
			w.SSAPkgs[sp.Pkg.Path()] = sp
		}
	}
	for _, sp := range prog.AllPackages() {
		if _, ok := w.SSAPkgs[sp.Pkg.Path()]; !ok {
			w.SSAPkgs[sp.Pkg.Path()] = sp
		}
	}
	// index functions of repo packages
	for path, sp := range w.SSAPkgs {
		if !strings.HasPrefix(path, ModulePath) {
			continue
		}
		var add func(f *ssa.Function)
		add = func(f *ssa.Function) {
			w.funcsByKey[path+"::"+funcKeyName(f)] = f
			for _, a := range f.AnonFuncs {
				add(a)
			}
		}
		for _, m := range sp.Members {
			switch x := m.(type) {
			case *ssa.Function:
				add(x)
			case *ssa.Type:
				for _, t := range []types.Type{x.Type(), types.NewPointer(x.Type())} {
					ms := prog.MethodSets.MethodSet(t)
					for i := 0; i < ms.Len(); i++ {
						if f := prog.MethodValue(ms.At(i)); f != nil && f.Pkg == sp && f.Synthetic == "" {
							add(f)
						}
					}
				}
			}
		}
	}
	// contracts: trusted library specs first (they define shared groups), then /repo/<pkg>/contracts_verif.go
	specs, _ := filepath.Glob(filepath.Join(verifDir, "lib", "trusted", "*.spec"))
	sort.Strings(specs)
	for _, f := range specs {
		if err := w.Contracts.ParseContractFile(f, "trusted"); err != nil {
			return nil, err
		}
	}
	var paths []string
	for path := range w.SSAPkgs {
		if strings.HasPrefix(path, ModulePath) {
			paths = append(paths, path)
		}
	}
	sort.Strings(paths)
	for _, path := range paths {
		dir := filepath.Join(repo, strings.TrimPrefix(strings.TrimPrefix(path, ModulePath), "/"))
		f := filepath.Join(dir, "contracts_verif.go")
		if _, err := os.Stat(f); err == nil {
			if err := w.Contracts.ParseContractFile(f, path); err != nil {
				return nil, err
			}
		}
	}
	for _, fc := range w.Contracts.Funcs {
		if fc.Pkg == "trusted" {
			fc.Trusted = true
		}
	}
	w.Contracts.finalize()
	w.loadTables(filepath.Join(verifDir, "lib", "pure.txt"), w.pure)
	w.loadTables(filepath.Join(verifDir, "lib", "noheap.txt"), w.noHeap)
	return w, nil
}

func (w *World) loadTables(path string, into map[string]bool) {
	data, err := os.ReadFile(path)
	if err != nil {
		return
	}
	for _, l := range strings.Split(string(data), "\n") {
		l = strings.TrimSpace(l)
		if l == "" || strings.HasPrefix(l, "#") {
			continue
		}
		if k := strings.Index(l, " -> "); k >= 0 {
			// "name -> Sort": the result sort, for functions that contracts mention but the code under contract does not call
			w.pureResultSort[strings.TrimSpace(l[:k])] = strings.TrimSpace(l[k+4:])
			l = strings.TrimSpace(l[:k])
		}
		into[l] = true
	}
}

// funcKeyName is the name used in contract files: Name, (*T).Name, (T).Name, Outer$1.
func funcKeyName(f *ssa.Function) string {
	if f.Parent() != nil {
		return funcKeyName(f.Parent()) + strings.TrimPrefix(f.Name(), f.Parent().Name())
	}
	if recv := f.Signature.Recv(); recv != nil {
		t := recv.Type()
		if pt, ok := t.(*types.Pointer); ok {
			if nt, ok := pt.Elem().(*types.Named); ok {
				return "(*" + nt.Obj().Name() + ")." + f.Name()
			}
		}
		if nt, ok := t.(*types.Named); ok {
			return "(" + nt.Obj().Name() + ")." + f.Name()
		}
	}
	return f.Name()
}

func (w *World) pkgPathOf(f *ssa.Function) string {
	for f.Parent() != nil {
		f = f.Parent()
	}
	if f.Pkg != nil {
		return f.Pkg.Pkg.Path()
	}
	if f.Signature.Recv() != nil {
		t := f.Signature.Recv().Type()
		if pt, ok := t.(*types.Pointer); ok {
			t = pt.Elem()
		}
		if nt, ok := t.(*types.Named); ok && nt.Obj().Pkg() != nil {
			return nt.Obj().Pkg().Path()
		}
	}
	return ""
}

// ContractFor finds the contract of a function: in its package's contract file, or a trusted spec.
func (w *World) ContractFor(f *ssa.Function) *FuncContract {
	key := w.pkgPathOf(f) + "::" + funcKeyName(f)
	if c, ok := w.Contracts.Funcs[key]; ok {
		return c
	}
	tk := "trusted::" + strings.TrimPrefix(f.String(), "")
	if c, ok := w.Contracts.Funcs[tk]; ok {
		return c
	}
	return nil
}

func (w *World) FuncByKey(key string) *ssa.Function { return w.funcsByKey[key] }

func (w *World) IsPure(name string) bool       { return w.pure[name] }
func (w *World) NoHeapEffect(name string) bool { return w.noHeap[name] || w.pure[name] }

func (w *World) UF(name string, argSorts []string, res string, args ...string) string {
	if _, ok := w.ufs[name]; !ok {
		w.ufs[name] = fmt.Sprintf("(declare-fun %s (%s) %s)", name, strings.Join(argSorts, " "), res)
		w.ufOrder = append(w.ufOrder, name)
	}
	return sx(name, args...)
}

func (w *World) TypeID(t types.Type) int {
	k := types.TypeString(t, nil)
	if id, ok := w.typeIDs[k]; ok {
		return id
	}
	id := len(w.typeIDs) + 1
	w.typeIDs[k] = id
	return id
}

func (w *World) GlobalRef(g *ssa.Global) string {
	id, ok := w.globals[g]
	if !ok {
		id = len(w.globals) + 1
		w.globals[g] = id
	}
	return fmt.Sprintf("(- %d)", id)
}

func (w *World) FuncRef(f *ssa.Function) string {
	id, ok := w.funcIDs[f]
	if !ok {
		id = len(w.funcIDs) + 1
		w.funcIDs[f] = id
	}
	return fmt.Sprintf("(- %d)", 1000000+id)
}

// globalFacts asserts the axioms of the contract files and the values of the case-mapping functions on the
// string literals of the function and of the contracts (computed by the real Go functions).
func (w *World) globalFacts(e *FnEnc) {
	env := &Env{e: e, st: e.initState, old: e.initState, vars: map[string]Val{}, guard: "true"}
	for _, ax := range w.Contracts.Axioms {
		if len(ax.Tags) > 0 {
			used := false
			if e.con != nil {
				for _, u := range e.con.Uses {
					for _, t := range ax.Tags {
						if t == u {
							used = true
						}
					}
				}
			}
			if !used {
				continue
			}
		}
		if sp, ok := w.SSAPkgs[ax.Pkg]; ok {
			env.pkg = sp.Pkg
		} else if e.fn.Pkg != nil {
			env.pkg = e.fn.Pkg.Pkg
		}
		t, err := env.EvalBool(ax.Expr)
		if err != nil {
			e.bindFail("axiom", err.Error()+" in "+ax.Src)
			continue
		}
		e.emit(fmt.Sprintf("(assert %s)", t))
		e.note("axiom: " + ax.Src)
	}
	lits := map[string]bool{}
	for _, b := range e.fn.Blocks {
		for _, in := range b.Instrs {
			for _, op := range in.Operands(nil) {
				if c, ok := (*op).(*ssa.Const); ok && c.Value != nil && isString(c.Type()) {
					lits[constant.StringVal(c.Value)] = true
				}
			}
		}
	}
	// string literals of the contracts that can matter here: those of the function's package, of the packages of its
	// contract callees, and of the trusted specifications (facts about every literal of every loaded contract file made
	// string-heavy obligations unstable)
	pkgs := map[string]bool{"": true}
	if e.fn.Pkg != nil {
		pkgs[e.fn.Pkg.Pkg.Path()] = true
	} else if e.fn.Parent() != nil && e.fn.Parent().Pkg != nil {
		pkgs[e.fn.Parent().Pkg.Pkg.Path()] = true
	}
	for _, b := range e.fn.Blocks {
		for _, in := range b.Instrs {
			if ci, ok := in.(ssa.CallInstruction); ok {
				if f := ci.Common().StaticCallee(); f != nil && f.Pkg != nil && w.ContractFor(f) != nil {
					pkgs[f.Pkg.Pkg.Path()] = true
				}
			}
		}
	}
	for _, l := range w.specLiteralsFor(pkgs) {
		lits[l] = true
	}
	for _, l := range sortedKeys(lits) {
		if len(l) > 64 {
			continue
		}
		e.emit(fmt.Sprintf("(assert (= (str.upper %s) %s))", strLit(l), strLit(strings.ToUpper(l))))
		e.emit(fmt.Sprintf("(assert (= (str.lower %s) %s))", strLit(l), strLit(strings.ToLower(l))))
	}
}

func (w *World) specLiteralsFor(pkgs map[string]bool) []string {
	in := func(p string) bool {
		if pkgs[p] || !strings.HasPrefix(p, ModulePath) {
			return true
		}
		return false
	}
	seen := map[string]bool{}
	var walk func(x Expr)
	walk = func(x Expr) {
		switch n := x.(type) {
		case *EStr:
			seen[n.V] = true
		case *EUnary:
			walk(n.X)
		case *EBinary:
			walk(n.X)
			walk(n.Y)
		case *ECall:
			for _, a := range n.Args {
				walk(a)
			}
		case *EField:
			walk(n.X)
		case *EIndex:
			walk(n.X)
			walk(n.I)
		case *EOld:
			walk(n.X)
		case *EQuant:
			walk(n.Body)
			for _, v := range n.Vars {
				if v.Lo != nil {
					walk(v.Lo)
					walk(v.Hi)
				}
				if v.Keys != nil {
					walk(v.Keys)
				}
			}
		}
	}
	for _, p := range w.Contracts.Preds {
		if in(p.Pkg) {
			walk(p.Body)
		}
	}
	for _, a := range w.Contracts.Axioms {
		if in(a.Pkg) {
			walk(a.Expr)
		}
	}
	for _, f := range w.Contracts.Funcs {
		if !in(f.Pkg) {
			continue
		}
		for _, c := range f.Requires {
			walk(c.Expr)
		}
		for _, c := range f.Ensures {
			walk(c.Expr)
		}
		for _, l := range f.Loops {
			for _, c := range l.Invariants {
				walk(c.Expr)
			}
		}
	}
	return sortedKeys(seen)
}

// Header returns the declarations shared by all queries.
func (w *World) Header() string {
	var b strings.Builder
	b.WriteString(Prelude)
	b.WriteString("(declare-fun itag (Int) Int)\n")
	b.WriteString(w.Sorts.Decls())
	for _, n := range w.ufOrder {
		b.WriteString(w.ufs[n])
		b.WriteByte('\n')
	}
	return b.String()
}

// ResolveType parses a type expression used in contracts.
func (w *World) ResolveType(s string, pkg *types.Package) types.Type {
	s = strings.TrimSpace(s)
	switch {
	case s == "":
		return nil
	case strings.HasPrefix(s, "*"):
		if t := w.ResolveType(s[1:], pkg); t != nil {
			return types.NewPointer(t)
		}
		return nil
	case strings.HasPrefix(s, "[]"):
		if t := w.ResolveType(s[2:], pkg); t != nil {
			return types.NewSlice(t)
		}
		return nil
	case strings.HasPrefix(s, "map["):
		depth := 0
		for i, c := range s {
			if c == '[' {
				depth++
			}
			if c == ']' {
				depth--
				if depth == 0 {
					k := w.ResolveType(s[4:i], pkg)
					v := w.ResolveType(s[i+1:], pkg)
					if k != nil && v != nil {
						return types.NewMap(k, v)
					}
					return nil
				}
			}
		}
		return nil
	}
	if obj := types.Universe.Lookup(s); obj != nil {
		if tn, ok := obj.(*types.TypeName); ok {
			return tn.Type()
		}
	}
	if i := strings.LastIndex(s, "."); i >= 0 {
		pn, tn := s[:i], s[i+1:]
		for path, sp := range w.SSAPkgs {
			if sp.Pkg.Name() == pn || path == pn {
				if obj := sp.Pkg.Scope().Lookup(tn); obj != nil {
					if _, ok := obj.(*types.TypeName); ok {
						if pkg == nil || path == pkg.Path() || imports(pkg, path) || true {
							return obj.Type()
						}
					}
				}
			}
		}
		return nil
	}
	if pkg != nil {
		if obj := pkg.Scope().Lookup(s); obj != nil {
			if _, ok := obj.(*types.TypeName); ok {
				return obj.Type()
			}
		}
	}
	return nil
}

func imports(p *types.Package, path string) bool {
	for _, i := range p.Imports() {
		if i.Path() == path {
			return true
		}
	}
	return false
}

// SpecConst resolves package-level constants and variables used in contracts.
func (w *World) SpecConst(env *Env, name string) (Val, bool) {
	if env.pkg == nil {
		return Val{}, false
	}
	obj := env.pkg.Scope().Lookup(name)
	if obj == nil {
		// package-level variables that exist only in go/ssa (init$guard)
		if sp := w.SSAPkgs[env.pkg.Path()]; sp != nil {
			if g, ok := sp.Members[name].(*ssa.Global); ok {
				return env.deref(env.e.val(g)), true
			}
		}
		return Val{}, false
	}
	switch o := obj.(type) {
	case *types.Const:
		c := ssa.NewConst(o.Val(), o.Type())
		if b, ok := o.Type().Underlying().(*types.Basic); ok && b.Info()&types.IsUntyped != 0 {
			c = ssa.NewConst(o.Val(), types.Default(o.Type()))
		}
		return env.e.constVal(c), true
	case *types.Var:
		if sp := w.SSAPkgs[env.pkg.Path()]; sp != nil {
			if g, ok := sp.Members[name].(*ssa.Global); ok {
				if w.ImmutableGlobal(g) && !env.e.isPkgInit() {
					return Val{T: w.GlobalConst(g), Ty: g.Type().Underlying().(*types.Pointer).Elem()}, true
				}
				gv := env.e.val(g)
				return env.deref(gv), true
			}
		}
	}
	return Val{}, false
}

// SpecFunc resolves uninterpreted spec functions declared with "ufunc".
func (w *World) SpecFunc(env *Env, name string, args []Expr) (Val, bool) {
	uf, ok := w.Contracts.UFuncs[name]
	if !ok {
		return Val{}, false
	}
	if len(args) != len(uf.Params) {
		fail("ufunc %s expects %d arguments", name, len(uf.Params))
	}
	var sorts, ts []string
	for i, a := range args {
		v := env.eval(a)
		ty := w.ResolveType(uf.Params[i].Type, env.pkg)
		if ty == nil {
			fail("ufunc %s: unknown type %s", name, uf.Params[i].Type)
		}
		if isFloat(ty) && env.sortOf(v) == "Int" {
			v = env.toFloat(v)
		}
		sorts = append(sorts, w.Sorts.SortOf(ty))
		ts = append(ts, v.T)
	}
	rt := w.ResolveType(uf.Result, env.pkg)
	if rt == nil {
		fail("ufunc %s: unknown result type %s", name, uf.Result)
	}
	if len(ts) == 0 {
		if _, ok := w.ufs["spec."+name]; !ok {
			w.ufs["spec."+name] = fmt.Sprintf("(declare-fun spec.%s () %s)", name, w.Sorts.SortOf(rt))
			w.ufOrder = append(w.ufOrder, "spec."+name)
		}
		return Val{T: "spec." + name, Ty: rt}, true
	}
	return Val{T: w.UF("spec."+name, sorts, w.Sorts.SortOf(rt), ts...), Ty: rt}, true
}

// contractModHeaps returns the heap variables a callee's modifies clauses can touch (by type).
func (w *World) contractModHeaps(e *FnEnc, con *FuncContract, callee *ssa.Function) []string {
	var out []string
	if len(con.Modifies) == 0 {
		return nil
	}
	// conservative: evaluate the types of modifies expressions with parameters bound to dummies
	env := &Env{e: e, st: e.cur, old: e.cur, vars: map[string]Val{}}
	if callee != nil {
		if callee.Pkg != nil {
			env.pkg = callee.Pkg.Pkg
		}
		for _, p := range callee.Params {
			env.vars[p.Name()] = Val{T: "0", Ty: p.Type()}
		}
		for _, p := range callee.FreeVars {
			env.vars[p.Name()] = Val{T: "0", Ty: p.Type()}
		}
	}
	tmp := map[string][]string{}
	for _, c := range con.Modifies {
		func() {
			defer func() { recover() }()
			v, err := env.EvalVal(c.Expr)
			if err != nil {
				return
			}
			s := e.sorts()
			if v.Loc != nil {
				tmp[v.Loc.Heap.Name] = nil
				return
			}
			switch u := v.Ty.Underlying().(type) {
			case *types.Pointer:
				tmp[s.CellHeap(u.Elem()).Name] = nil
			case *types.Map:
				tmp[s.MapDom(u.Key()).Name] = nil
				tmp[s.MapVal(u.Key(), u.Elem()).Name] = nil
				tmp[MapLen.Name] = nil
			case *types.Slice:
				tmp[s.ArrHeap(u.Elem()).Name] = nil
			}
		}()
	}
	for k := range tmp {
		out = append(out, k)
	}
	sort.Strings(out)
	return out
}

// ghostSort maps a ghost variable's declared type to an SMT sort: scalars, map[K]V (a total array) and set[K].
func (w *World) ghostSort(t string, fn *ssa.Function) string {
	var pkg *types.Package
	if fn.Pkg != nil {
		pkg = fn.Pkg.Pkg
	}
	t = strings.TrimSpace(t)
	if strings.HasPrefix(t, "set[") && strings.HasSuffix(t, "]") {
		k := w.ResolveType(t[4:len(t)-1], pkg)
		if k == nil {
			return ""
		}
		return "(Array " + w.Sorts.SortOf(k) + " Bool)"
	}
	ty := w.ResolveType(t, pkg)
	if ty == nil {
		return ""
	}
	if mt, ok := ty.Underlying().(*types.Map); ok {
		return "(Array " + w.Sorts.SortOf(mt.Key()) + " " + w.Sorts.SortOf(mt.Elem()) + ")"
	}
	return w.Sorts.SortOf(ty)
}

// newLemmaEnc returns an encoder with no function: the context lemmas are proved in.
func (w *World) newLemmaEnc() *FnEnc {
	e := w.newEnc(nil, nil, "")
	e.initState = State{}
	e.cur = State{}
	e.curGuard = "true"
	e.ghosts = map[string]HeapVar{}
	return e
}

// ImmutableGlobal: a package-level variable that no function other than its package initialiser stores to
// (checked for the packages of this module by scanning every Store; assumed for other packages: A12).
func (w *World) ImmutableGlobal(g *ssa.Global) bool {
	if g.Pkg == nil || !strings.HasPrefix(g.Pkg.Pkg.Path(), ModulePath) {
		return true
	}
	if w.mutGlobals == nil {
		w.mutGlobals = map[*ssa.Global]bool{}
		for path, sp := range w.SSAPkgs {
			if !strings.HasPrefix(path, ModulePath) {
				continue
			}
			var scan func(f *ssa.Function)
			scan = func(f *ssa.Function) {
				if f.Name() == "init" && f.Parent() == nil {
					return
				}
				for _, b := range f.Blocks {
					for _, in := range b.Instrs {
						var addr ssa.Value
						switch x := in.(type) {
						case *ssa.Store:
							addr = x.Addr
						case *ssa.MapUpdate:
							continue
						default:
							continue
						}
						for {
							if fa, ok := addr.(*ssa.FieldAddr); ok {
								addr = fa.X
								continue
							}
							if ia, ok := addr.(*ssa.IndexAddr); ok {
								addr = ia.X
								continue
							}
							break
						}
						if gg, ok := addr.(*ssa.Global); ok {
							w.mutGlobals[gg] = true
						}
					}
				}
				for _, a := range f.AnonFuncs {
					scan(a)
				}
			}
			for _, f := range w.funcsByKey {
				if w.pkgPathOf(f) == path && f.Parent() == nil {
					scan(f)
				}
			}
			_ = sp
		}
	}
	return !w.mutGlobals[g]
}

func (w *World) GlobalConst(g *ssa.Global) string {
	pt := g.Type().Underlying().(*types.Pointer)
	name := "glob." + mangle(g.Pkg.Pkg.Path()+"."+g.Name())
	if _, ok := w.ufs[name]; !ok {
		w.ufs[name] = fmt.Sprintf("(declare-fun %s () %s)", name, w.Sorts.SortOf(pt.Elem()))
		w.ufOrder = append(w.ufOrder, name)
	}
	return name
}

// globalInitFunc: v is a load of a package-level function variable that nothing but its package initialiser assigns
// (A12), and the initialiser stores a function (or a literal without captured variables) into it: a call through the
// variable is a call of that function.
func (w *World) globalInitFunc(v ssa.Value) (*ssa.Function, bool) {
	u, ok := v.(*ssa.UnOp)
	if !ok || u.Op != token.MUL {
		return nil, false
	}
	g, ok := u.X.(*ssa.Global)
	if !ok || g.Pkg == nil || !strings.HasPrefix(g.Pkg.Pkg.Path(), ModulePath) || !w.ImmutableGlobal(g) {
		return nil, false
	}
	init := g.Pkg.Func("init")
	if init == nil {
		return nil, false
	}
	var found *ssa.Function
	n := 0
	for _, b := range init.Blocks {
		for _, in := range b.Instrs {
			st, ok := in.(*ssa.Store)
			if !ok || st.Addr != ssa.Value(g) {
				continue
			}
			n++
			switch f := st.Val.(type) {
			case *ssa.Function:
				found = f
			case *ssa.MakeClosure:
				if len(f.Bindings) == 0 {
					found, _ = f.Fn.(*ssa.Function)
				}
			}
		}
	}
	if n != 1 || found == nil {
		return nil, false
	}
	return found, true
}

// globalInitString: v is a load of an immutable package-level []byte variable that the package initialiser sets to
// []byte("literal"): returns the literal.  (A12 extended to the contents: such byte slices are used as constants.)
func (w *World) globalInitString(v ssa.Value) (string, bool) {
	u, ok := v.(*ssa.UnOp)
	if !ok {
		return "", false
	}
	g, ok := u.X.(*ssa.Global)
	if !ok || !w.ImmutableGlobal(g) || g.Pkg == nil {
		return "", false
	}
	init := g.Pkg.Func("init")
	if init == nil {
		return "", false
	}
	for _, b := range init.Blocks {
		for _, in := range b.Instrs {
			st, ok := in.(*ssa.Store)
			if !ok || st.Addr != ssa.Value(g) {
				continue
			}
			if cv, ok := st.Val.(*ssa.Convert); ok {
				if c, ok := cv.X.(*ssa.Const); ok && c.Value != nil && isString(c.Type()) {
					return constant.StringVal(c.Value), true
				}
			}
		}
	}
	return "", false
}

type mapWrite struct{ fn, full, pos string }

// mapFieldWriters lists the map stores and deletes, anywhere in the declaring package (function literals included),
// whose map operand is read from field mw.Field of a mw.Type. found is false when no such map field exists.
func (w *World) mapFieldWriters(mw MapWriters) (out []mapWrite, found bool) {
	sp := w.SSAPkgs[mw.Pkg]
	if sp == nil {
		return nil, false
	}
	if tn, ok := sp.Pkg.Scope().Lookup(mw.Type).(*types.TypeName); ok {
		if st, ok := tn.Type().Underlying().(*types.Struct); ok {
			for i := 0; i < st.NumFields(); i++ {
				if st.Field(i).Name() == mw.Field {
					_, found = st.Field(i).Type().Underlying().(*types.Map)
				}
			}
		}
	}
	if !found {
		return nil, false
	}
	isField := func(v ssa.Value) bool {
		u, ok := v.(*ssa.UnOp)
		if !ok || u.Op != token.MUL {
			return false
		}
		fa, ok := u.X.(*ssa.FieldAddr)
		if !ok {
			return false
		}
		pt, ok := fa.X.Type().Underlying().(*types.Pointer)
		if !ok {
			return false
		}
		nt, ok := pt.Elem().(*types.Named)
		if !ok || nt.Obj().Name() != mw.Type || nt.Obj().Pkg() == nil || nt.Obj().Pkg().Path() != mw.Pkg {
			return false
		}
		st, ok := nt.Underlying().(*types.Struct)
		return ok && fa.Field < st.NumFields() && st.Field(fa.Field).Name() == mw.Field
	}
	var visit func(f *ssa.Function)
	seen := map[*ssa.Function]bool{}
	visit = func(f *ssa.Function) {
		if f == nil || seen[f] {
			return
		}
		seen[f] = true
		for _, b := range f.Blocks {
			for _, in := range b.Instrs {
				var m ssa.Value
				switch x := in.(type) {
				case *ssa.MapUpdate:
					m = x.Map
				case *ssa.Call:
					if bi, ok := x.Call.Value.(*ssa.Builtin); ok && (bi.Name() == "delete" || bi.Name() == "clear") && len(x.Call.Args) > 0 {
						m = x.Call.Args[0]
					}
				}
				if m != nil && isField(m) {
					p := w.Prog.Fset.Position(in.Pos())
					out = append(out, mapWrite{funcKeyName(f), f.String(), fmt.Sprintf("%d:%d", p.Line, p.Column)})
				}
			}
		}
		for _, a := range f.AnonFuncs {
			visit(a)
		}
	}
	for _, m := range sp.Members {
		switch x := m.(type) {
		case *ssa.Function:
			visit(x)
		case *ssa.Type:
			for _, t := range []types.Type{x.Type(), types.NewPointer(x.Type())} {
				ms := w.Prog.MethodSets.MethodSet(t)
				for i := 0; i < ms.Len(); i++ {
					visit(w.Prog.MethodValue(ms.At(i)))
				}
			}
		}
	}
	sort.Slice(out, func(i, j int) bool { return out[i].full+out[i].pos < out[j].full+out[j].pos })
	return out, true
}
