package govc

import (
	"strings"
	"strconv"
	"fmt"
	"go/constant"
	"go/token"
	"go/types"
	"math/big"

	"golang.org/x/tools/go/ssa"
)

func (e *FnEnc) constVal(c *ssa.Const) Val {
	ty := c.Type()
	s := e.sorts()
	if c.Value == nil {
		return Val{T: s.Zero(ty), Ty: ty}
	}
	switch {
	case isBool(ty):
		if constant.BoolVal(c.Value) {
			return Val{T: "true", Ty: ty}
		}
		return Val{T: "false", Ty: ty}
	case isString(ty):
		return Val{T: strLit(constant.StringVal(c.Value)), Ty: ty}
	case isInteger(ty):
		v := constant.ToInt(c.Value)
		if i, ok := constant.Int64Val(v); ok {
			return Val{T: intLit(i), Ty: ty}
		}
		return Val{T: v.ExactString(), Ty: ty}
	case isFloat(ty):
		return Val{T: "(fin " + ratLit(c.Value) + ")", Ty: ty}
	}
	return Val{T: s.Zero(ty), Ty: ty}
}

func ratLit(v constant.Value) string {
	v = constant.ToFloat(v)
	var r *big.Rat
	switch x := constant.Val(v).(type) {
	case *big.Rat:
		r = x
	case *big.Float:
		r, _ = x.Rat(nil)
	case int64:
		r = new(big.Rat).SetInt64(x)
	case *big.Int:
		r = new(big.Rat).SetInt(x)
	default:
		f, _ := constant.Float64Val(v)
		r = new(big.Rat).SetFloat64(f)
	}
	if r == nil {
		return "0.0"
	}
	num, den := r.Num(), r.Denom()
	neg := num.Sign() < 0
	n := new(big.Int).Abs(num).String() + ".0"
	t := n
	if den.Cmp(big.NewInt(1)) != 0 {
		t = "(/ " + n + " " + den.String() + ".0)"
	}
	if neg {
		t = "(- " + t + ")"
	}
	return t
}

func (e *FnEnc) val(v ssa.Value) Val {
	if x, ok := e.vals[v]; ok {
		return x
	}
	switch c := v.(type) {
	case *ssa.Const:
		return e.constVal(c)
	case *ssa.Global:
		pt := c.Type().Underlying().(*types.Pointer)
		ref := e.W.GlobalRef(c)
		x := Val{T: ref, Ty: c.Type(), Loc: &Loc{Heap: e.sorts().CellHeap(pt.Elem()), Ref: ref, RootTy: pt.Elem()}}
		return x
	case *ssa.Function:
		return Val{T: e.W.FuncRef(c), Ty: c.Type()}
	case *ssa.Builtin:
		return Val{T: "0", Ty: c.Type()}
	}
	// value not yet defined (e.g. defined in an unprocessed block): unconstrained
	n := e.declare("undef."+mangle(v.Name()), e.sorts().SortOf(v.Type()))
	x := Val{T: n, Ty: v.Type()}
	e.vals[v] = x
	return x
}

func (e *FnEnc) setVal(v ssa.Value, term string) Val {
	name := "v." + mangle(v.Name())
	n := e.define(name, e.sorts().SortOf(v.Type()), term)
	x := Val{T: n, Ty: v.Type()}
	e.vals[v] = x
	return x
}

func (e *FnEnc) havocVal(v ssa.Value) Val {
	name := "v." + mangle(v.Name())
	var x Val
	if tup, ok := v.Type().(*types.Tuple); ok {
		x = Val{Ty: v.Type()}
		for i := 0; i < tup.Len(); i++ {
			n := e.declare(fmt.Sprintf("%s.%d", name, i), e.sorts().SortOf(tup.At(i).Type()))
			c := Val{T: n, Ty: tup.At(i).Type()}
			e.assumeValid(c)
			x.Tup = append(x.Tup, c)
		}
	} else {
		n := e.declare(name, e.sorts().SortOf(v.Type()))
		x = Val{T: n, Ty: v.Type()}
		e.assumeValid(x)
	}
	e.vals[v] = x
	return x
}

func wrapUnsigned(t string, ty types.Type) string {
	b, ok := ty.Underlying().(*types.Basic)
	if !ok {
		return t
	}
	switch b.Kind() {
	case types.Uint8:
		return sx("mod", t, "256")
	case types.Uint16:
		return sx("mod", t, "65536")
	case types.Uint32:
		return sx("mod", t, "4294967296")
	case types.Uint64, types.Uint, types.Uintptr:
		return sx("mod", t, "18446744073709551616")
	}
	return t
}

func goDiv(a, b string) string {
	return sx("ite", sx(">=", a, "0"), sx("div", a, b), sx("-", sx("div", sx("-", a), b)))
}
func goMod(a, b string) string {
	return sx("ite", sx(">=", a, "0"), sx("mod", a, b), sx("-", sx("mod", sx("-", a), b)))
}

// maskFacts: for a constant non-negative mask m, (x & m) lies in [0, m], and it is non-zero exactly when x has one
// of m's bits: (x & m) != 0  <=>  OR over the bits b of m of (x & b) != 0. This makes flag tests written with a
// combined mask and flag tests written bit by bit say the same thing.
func (e *FnEnc) maskFacts(x, m string) {
	n, err := strconv.ParseInt(m, 10, 64)
	if err != nil || n <= 0 || n > 1<<40 {
		return
	}
	and := func(a string, k int64) string {
		return e.W.UF("bits.and", []string{"Int", "Int"}, "Int", a, strconv.FormatInt(k, 10))
	}
	whole := and(x, n)
	e.emit("(assert (and (<= 0 " + whole + ") (<= " + whole + " " + m + ")))")
	var bits []string
	for b := int64(1); b <= n; b <<= 1 {
		if n&b != 0 {
			t := and(x, b)
			e.emit("(assert (or (= " + t + " 0) (= " + t + " " + strconv.FormatInt(b, 10) + ")))")
			bits = append(bits, "(not (= "+t+" 0))")
		}
	}
	if len(bits) > 1 {
		e.emit("(assert (= (not (= " + whole + " 0)) (or " + strings.Join(bits, " ") + ")))")
	}
}

func (e *FnEnc) binop(op token.Token, x, y Val, resTy types.Type) string {
	ty := x.Ty
	switch {
	case isFloat(ty):
		switch op {
		case token.ADD:
			return sx("f.add", x.T, y.T)
		case token.SUB:
			return sx("f.sub", x.T, y.T)
		case token.MUL:
			return sx("f.mul", x.T, y.T)
		case token.QUO:
			return sx("f.div", x.T, y.T)
		case token.EQL:
			return sx("f.eq", x.T, y.T)
		case token.NEQ:
			return not(sx("f.eq", x.T, y.T))
		case token.LSS:
			return sx("f.lt", x.T, y.T)
		case token.LEQ:
			return sx("f.le", x.T, y.T)
		case token.GTR:
			return sx("f.lt", y.T, x.T)
		case token.GEQ:
			return sx("f.le", y.T, x.T)
		}
	case isString(ty):
		switch op {
		case token.ADD:
			return sx("str.++", x.T, y.T)
		case token.EQL:
			return sx("=", x.T, y.T)
		case token.NEQ:
			return not(sx("=", x.T, y.T))
		case token.LSS:
			return sx("str.<", x.T, y.T)
		case token.LEQ:
			return sx("str.<=", x.T, y.T)
		case token.GTR:
			return sx("str.<", y.T, x.T)
		case token.GEQ:
			return sx("str.<=", y.T, x.T)
		}
	case isInteger(ty):
		switch op {
		case token.ADD:
			return wrapUnsigned(sx("+", x.T, y.T), resTy)
		case token.SUB:
			return wrapUnsigned(sx("-", x.T, y.T), resTy)
		case token.MUL:
			return wrapUnsigned(sx("*", x.T, y.T), resTy)
		case token.QUO:
			e.assume(not(sx("=", y.T, "0")))
			return goDiv(x.T, y.T)
		case token.REM:
			e.assume(not(sx("=", y.T, "0")))
			return goMod(x.T, y.T)
		case token.EQL:
			return sx("=", x.T, y.T)
		case token.NEQ:
			return not(sx("=", x.T, y.T))
		case token.LSS:
			return sx("<", x.T, y.T)
		case token.LEQ:
			return sx("<=", x.T, y.T)
		case token.GTR:
			return sx(">", x.T, y.T)
		case token.GEQ:
			return sx(">=", x.T, y.T)
		case token.AND, token.OR, token.XOR, token.SHL, token.SHR, token.AND_NOT:
			names := map[token.Token]string{token.AND: "and", token.OR: "or", token.XOR: "xor", token.SHL: "shl", token.SHR: "shr", token.AND_NOT: "andnot"}
			t := e.W.UF("bits."+names[op], []string{"Int", "Int"}, "Int", x.T, y.T)
			if op == token.AND {
				e.maskFacts(x.T, y.T)
				e.maskFacts(y.T, x.T)
			}
			return t
		}
	case isBool(ty):
		switch op {
		case token.EQL:
			return sx("=", x.T, y.T)
		case token.NEQ:
			return not(sx("=", x.T, y.T))
		case token.AND, token.LAND:
			return and(x.T, y.T)
		case token.OR, token.LOR:
			return or(x.T, y.T)
		}
	}
	// reference-like and struct comparisons
	xs, ys := x.T, y.T
	if _, ok := ty.Underlying().(*types.Slice); ok {
		xs, ys = sx("sref", xs), sx("sref", ys)
	}
	switch op {
	case token.EQL:
		return sx("=", xs, ys)
	case token.NEQ:
		return not(sx("=", xs, ys))
	}
	e.abstract(fmt.Sprintf("binop %s on %s", op, ty))
	return ""
}

// instr translates one non-terminator instruction.
func (e *FnEnc) instr(in ssa.Instruction) {
	s := e.sorts()
	switch i := in.(type) {
	case *ssa.DebugRef:
		if id, ok := i.Expr.(interface{ String() string }); ok {
			_ = id
		}
		if obj := i.Object(); obj != nil {
			e.debugNames[obj.Name()] = append(e.debugNames[obj.Name()], debugBinding{e.curBlock, 0, i.X, i.IsAddr})
		}
	case *ssa.Alloc:
		pt := i.Type().Underlying().(*types.Pointer)
		r := e.newRef()
		h := s.CellHeap(pt.Elem())
		e.setHeap(h, sx("store", e.heap(h), r, s.Zero(pt.Elem())))
		e.vals[i] = Val{T: r, Ty: i.Type()}
		if ei, never := e.escapeInfo(i); never || ei != nil {
			e.locals = append(e.locals, localRef{h.Name, r, ei, pt.Elem()})
		}
	case *ssa.FieldAddr:
		base := e.val(i.X)
		l := e.locOf(base)
		if l == nil {
			e.abstract("FieldAddr on non-pointer")
			e.havocVal(i)
			return
		}
		e.assume(not(sx("=", l.Ref, "0")))
		st := i.X.Type().Underlying().(*types.Pointer).Elem()
		nl := *l
		nl.Path = append(append([]PathStep{}, l.Path...), PathStep{Field: i.Field, Ty: st})
		e.vals[i] = Val{Ty: i.Type(), Loc: &nl}
	case *ssa.IndexAddr:
		base := e.val(i.X)
		idx := e.val(i.Index)
		switch u := i.X.Type().Underlying().(type) {
		case *types.Slice:
			e.boundsCheck(idx.T, sx("slen", base.T), i)
			ah := s.ArrHeap(u.Elem())
			if e.ownedSlice(i.X) {
				ah = s.ArrHeapOwned(u.Elem())
			}
			e.vals[i] = Val{Ty: i.Type(), Loc: &Loc{Heap: ah, Ref: sx("sref", base.T), Elem: true, Idx: idx.T, RootTy: u.Elem()}}
		case *types.Pointer:
			l := e.locOf(base)
			at := u.Elem().Underlying().(*types.Array)
			e.boundsCheck(idx.T, fmt.Sprint(at.Len()), i)
			nl := *l
			nl.Path = append(append([]PathStep{}, l.Path...), PathStep{Field: -1, Idx: idx.T, Ty: u.Elem()})
			e.vals[i] = Val{Ty: i.Type(), Loc: &nl}
		default:
			e.abstract("IndexAddr base")
			e.havocVal(i)
		}
	case *ssa.UnOp:
		x := e.val(i.X)
		switch i.Op {
		case token.MUL:
			if g, ok := i.X.(*ssa.Global); ok && e.W.ImmutableGlobal(g) && !e.isPkgInit() {
				v := e.setVal(i, e.W.GlobalConst(g))
				e.assumeValid(v)
				e.note("A12 package-level variable treated as a constant (never stored to outside its initialiser): " + g.Pkg.Pkg.Path() + "." + g.Name())
				return
			}
			l := e.locOf(x)
			if l == nil || (x.Loc == nil && x.T == "") {
				e.abstract("load through unknown pointer")
				e.havocVal(i)
				return
			}
			if x.Loc == nil {
				e.assume(not(sx("=", x.T, "0")))
			}
			e.protectCheck(l, false, i)
			t, _ := e.loadIn(e.cur, l)
			v := e.setVal(i, t)
			e.assumeValid(v)
			// a map held in a field of an object owned by go/ssa, go/types, ... belongs to that object (A-imm):
			// unknown calls leave it unchanged, like the object itself
			if mt, isMap := i.Type().Underlying().(*types.Map); isMap && !l.Elem && immutableHeap(l.Heap.Name) {
				sr := e.sorts()
				e.locals = append(e.locals, localRef{sr.MapDom(mt.Key()).Name, v.T, nil, nil}, localRef{sr.MapVal(mt.Key(), mt.Elem()).Name, v.T, nil, nil}, localRef{MapLen.Name, v.T, nil, nil})
			}
		case token.NOT:
			e.setVal(i, not(x.T))
		case token.SUB:
			if isFloat(x.Ty) {
				e.setVal(i, sx("f.neg", x.T))
			} else {
				e.setVal(i, wrapUnsigned(sx("-", x.T), i.Type()))
			}
		case token.XOR:
			e.setVal(i, e.W.UF("bits.not", []string{"Int"}, "Int", x.T))
		default:
			e.abstract("unop " + i.Op.String())
			e.havocAll("channel receive")
			e.havocVal(i)
		}
	case *ssa.Store:
		a := e.val(i.Addr)
		v := e.val(i.Val)
		l := e.locOf(a)
		if l == nil || (a.Loc == nil && a.T == "") {
			e.abstract("store through unknown pointer")
			return
		}
		if v.T == "" {
			e.abstract("derived address stored as a value")
			v.T = e.declare("esc", s.SortOf(i.Val.Type()))
		}
		e.protectCheck(l, true, i)
		e.storeLoc(l, v.T)
	case *ssa.BinOp:
		x, y := e.val(i.X), e.val(i.Y)
		t := e.binop(i.Op, x, y, i.Type())
		if t == "" {
			e.havocVal(i)
		} else {
			e.setVal(i, t)
		}
	case *ssa.Phi:
		// handled by block entry
	case *ssa.Field:
		x := e.val(i.X)
		v := e.setVal(i, s.GetField(i.X.Type(), x.T, i.Field))
		e.assumeValid(v)
	case *ssa.Index:
		x, idx := e.val(i.X), e.val(i.Index)
		switch i.X.Type().Underlying().(type) {
		case *types.Array:
			e.setVal(i, sx("select", x.T, idx.T))
		case *types.Basic: // string
			e.boundsCheck(idx.T, sx("str.len", x.T), i)
			v := e.setVal(i, sx("str.to_code", sx("str.at", x.T, idx.T)))
			e.assume(and(sx(">=", v.T, "0"), sx("<=", v.T, "255")))
		default:
			e.havocVal(i)
		}
	case *ssa.Extract:
		t := e.val(i.Tuple)
		if i.Index < len(t.Tup) {
			c := t.Tup[i.Index]
			c.Ty = i.Type()
			e.vals[i] = c
		} else {
			e.havocVal(i)
		}
	case *ssa.Convert:
		e.convert(i)
	case *ssa.ChangeType:
		x := e.val(i.X)
		e.vals[i] = Val{T: x.T, Ty: i.Type(), Loc: x.Loc}
	case *ssa.ChangeInterface:
		x := e.val(i.X)
		e.vals[i] = Val{T: x.T, Ty: i.Type()}
	case *ssa.MakeInterface:
		x := e.val(i.X)
		if x.T == "" {
			e.abstract("address boxed in interface")
			e.havocVal(i)
			return
		}
		tid := e.W.TypeID(i.X.Type())
		srt := s.SortOf(i.X.Type())
		box := e.W.UF(fmt.Sprintf("box.%d", tid), []string{srt}, "Int", x.T)
		v := e.setVal(i, box)
		e.assume(and(sx(">", v.T, "0"), sx("=", sx("itag", v.T), fmt.Sprint(tid)),
			sx("=", e.W.UF(fmt.Sprintf("unbox.%d", tid), []string{"Int"}, srt, v.T), x.T)))
	case *ssa.TypeAssert:
		x := e.val(i.X)
		var okT, valT string
		if _, isIface := i.AssertedType.Underlying().(*types.Interface); isIface {
			okT = e.declare("taok", "Bool")
			e.assume(implies(okT, not(sx("=", x.T, "0"))))
			valT = x.T
		} else {
			tid := e.W.TypeID(i.AssertedType)
			okT = and(not(sx("=", x.T, "0")), sx("=", sx("itag", x.T), fmt.Sprint(tid)))
			valT = e.W.UF(fmt.Sprintf("unbox.%d", tid), []string{"Int"}, s.SortOf(i.AssertedType), x.T)
			// an interface value of that dynamic type is the boxing of its payload
			e.assume(implies(okT, sx("=", e.W.UF(fmt.Sprintf("box.%d", tid), []string{s.SortOf(i.AssertedType)}, "Int", valT), x.T)))
		}
		if i.CommaOk {
			okN := e.define("taok", "Bool", okT)
			vN := e.define("taval", s.SortOf(i.AssertedType), ite(okN, valT, s.Zero(i.AssertedType)))
			v := Val{T: vN, Ty: i.AssertedType}
			e.assumeValid(v)
			e.vals[i] = Val{Ty: i.Type(), Tup: []Val{v, {T: okN, Ty: types.Typ[types.Bool]}}}
		} else {
			e.assume(okT)
			v := e.setVal(i, valT)
			e.assumeValid(v)
		}
	case *ssa.Slice:
		e.sliceInstr(i)
	case *ssa.MakeSlice:
		et := i.Type().Underlying().(*types.Slice).Elem()
		r := e.newRef()
		h := s.ArrHeap(et)
		ln := e.val(i.Len)
		e.assume(sx(">=", ln.T, "0"))
		e.setHeap(h, sx("store", e.heap(h), r, fmt.Sprintf("((as const (Array Int %s)) %s)", s.SortOf(et), s.Zero(et))))
		e.setVal(i, sx("mkslice", r, ln.T))
	case *ssa.MakeMap:
		mt := i.Type().Underlying().(*types.Map)
		r := e.newRef()
		md := s.MapDom(mt.Key())
		e.setHeap(md, sx("store", e.heap(md), r, fmt.Sprintf("((as const (Array %s Bool)) false)", s.SortOf(mt.Key()))))
		e.setHeap(MapLen, sx("store", e.heap(MapLen), r, "0"))
		e.vals[i] = Val{T: r, Ty: i.Type()}
		e.assume(sx("=", e.W.UF("mtype", []string{"Int"}, "Int", r), fmt.Sprint(e.W.TypeID(mt))))
		if ei, never := e.escapeInfo(i); never || ei != nil {
			e.locals = append(e.locals, localRef{md.Name, r, ei, nil}, localRef{s.MapVal(mt.Key(), mt.Elem()).Name, r, ei, nil}, localRef{MapLen.Name, r, ei, nil})
		}
	case *ssa.MapUpdate:
		m, k, v := e.val(i.Map), e.val(i.Key), e.val(i.Value)
		mt := i.Map.Type().Underlying().(*types.Map)
		e.assume(not(sx("=", m.T, "0")))
		e.updateAsserts(i, k, v)
		e.mapStore(mt, m.T, k.T, v.T)
	case *ssa.Lookup:
		x, k := e.val(i.X), e.val(i.Index)
		mt, isMap := i.X.Type().Underlying().(*types.Map)
		if !isMap {
			e.boundsCheck(k.T, sx("str.len", x.T), i)
			v := e.setVal(i, sx("str.to_code", sx("str.at", x.T, k.T)))
			e.assume(and(sx(">=", v.T, "0"), sx("<=", v.T, "255")))
			return
		}
		okT := sx("select", sx("select", e.heap(s.MapDom(mt.Key())), x.T), k.T)
		vT := ite(okT, sx("select", sx("select", e.heap(s.MapVal(mt.Key(), mt.Elem())), x.T), k.T), s.Zero(mt.Elem()))
		if i.CommaOk {
			okN := e.define("lkok", "Bool", okT)
			vN := e.define("lkval", s.SortOf(mt.Elem()), vT)
			v := Val{T: vN, Ty: mt.Elem()}
			e.assumeValid(v)
			e.vals[i] = Val{Ty: i.Type(), Tup: []Val{v, {T: okN, Ty: types.Typ[types.Bool]}}}
		} else {
			v := e.setVal(i, vT)
			e.assumeValid(v)
		}
	case *ssa.Range:
		x := e.val(i.X)
		if mt, ok := i.X.Type().Underlying().(*types.Map); ok {
			hv := HeapVar{"VIS." + mangle(i.Name()), "(Array " + s.SortOf(mt.Key()) + " Bool)"}
			e.rangeVis[i] = hv
			e.rangeMap[i] = x
			e.setHeap(hv, fmt.Sprintf("((as const (Array %s Bool)) false)", s.SortOf(mt.Key())))
		} else {
			// string range: position ghost
			hv := HeapVar{"POS." + mangle(i.Name()), "Int"}
			e.rangeVis[i] = hv
			e.rangeMap[i] = x
			e.setHeap(hv, "0")
		}
		e.vals[i] = Val{T: "0", Ty: i.Type()}
	case *ssa.Next:
		e.nextInstr(i)
	case *ssa.Call:
		e.applyCallAsserts(i.Common(), i)
		e.call(i, i.Common(), i)
		e.applyCallUpdates(i, i.Common())
	case *ssa.MakeClosure:
		e.makeClosure(i)
	case *ssa.Defer:
		e.deferInstr(i)
	case *ssa.RunDefers:
		e.runDefers()
	case *ssa.Go, *ssa.Send, *ssa.Select, *ssa.MakeChan:
		e.abstract(fmt.Sprintf("%T", in))
		e.havocAll(fmt.Sprintf("%T", in))
		if v, ok := in.(ssa.Value); ok {
			e.havocVal(v)
		}
	default:
		if v, ok := in.(ssa.Value); ok {
			e.abstract(fmt.Sprintf("unsupported %T", in))
			e.havocVal(v)
		}
	}
}

func (e *FnEnc) boundsCheck(idx, ln string, in ssa.Instruction) {
	cond := and(sx("<=", "0", idx), sx("<", idx, ln))
	if e.con != nil && e.con.Safe {
		e.oblige(&Obligation{Name: fmt.Sprintf("safe.index@%s", e.posOf(in)), Kind: "safe", Clause: "index in range", Guard: e.curGuard, Goal: cond, Pos: e.posOf(in)})
	}
	e.assume(cond)
}

func (e *FnEnc) posOf(in ssa.Instruction) string {
	if in == nil || e.fn.Prog == nil {
		return ""
	}
	p := e.fn.Prog.Fset.Position(in.Pos())
	if !p.IsValid() {
		return fmt.Sprintf("b%d", in.Block().Index)
	}
	return fmt.Sprintf("%d:%d", p.Line, p.Column)
}

func (e *FnEnc) mapStore(mt *types.Map, m, k, v string) {
	s := e.sorts()
	md, mv := s.MapDom(mt.Key()), s.MapVal(mt.Key(), mt.Elem())
	dom := sx("select", e.heap(md), m)
	had := e.define("had", "Bool", sx("select", dom, k))
	e.setHeap(md, sx("store", e.heap(md), m, sx("store", dom, k, "true")))
	e.setHeap(mv, sx("store", e.heap(mv), m, sx("store", sx("select", e.heap(mv), m), k, v)))
	ln := sx("select", e.heap(MapLen), m)
	e.setHeap(MapLen, sx("store", e.heap(MapLen), m, ite(had, ln, sx("+", ln, "1"))))
}

func (e *FnEnc) mapDelete(mt *types.Map, m, k string) {
	s := e.sorts()
	md := s.MapDom(mt.Key())
	dom := sx("select", e.heap(md), m)
	had := e.define("had", "Bool", and(not(sx("=", m, "0")), sx("select", dom, k)))
	e.setHeap(md, ite(sx("=", m, "0"), e.heap(md), sx("store", e.heap(md), m, sx("store", dom, k, "false"))))
	ln := sx("select", e.heap(MapLen), m)
	e.setHeap(MapLen, sx("store", e.heap(MapLen), m, ite(had, sx("-", ln, "1"), ln)))
}

// mapLen returns len(m) with the cardinality axioms the proofs need.
func (e *FnEnc) mapLenIn(st State, kt types.Type, m string) string {
	s := e.sorts()
	ln := sx("select", e.heapIn(st, MapLen), m)
	dom := sx("select", e.heapIn(st, s.MapDom(kt)), m)
	w := e.declare("wit", s.SortOf(kt))
	ks := s.SortOf(kt)
	e.emit(fmt.Sprintf("(assert (>= %s 0))", ln))
	e.emit(fmt.Sprintf("(assert (=> (> %s 0) (select %s %s)))", ln, dom, w))
	e.emit(fmt.Sprintf("(assert (=> (= %s 0) (forall ((k!q %s)) (not (select %s k!q)))))", ln, ks, dom))
	e.emit(fmt.Sprintf("(assert (=> (= %s 0) (= %s 0)))", m, ln))
	return ln
}

func (e *FnEnc) convert(i *ssa.Convert) {
	x := e.val(i.X)
	from, to := i.X.Type(), i.Type()
	s := e.sorts()
	switch {
	case isInteger(from) && isFloat(to):
		e.setVal(i, sx("f.ofint", x.T))
	case isFloat(from) && isFloat(to):
		e.setVal(i, x.T)
	case isFloat(from) && isInteger(to):
		v := e.setVal(i, sx("f.toint", x.T))
		e.assume(implies(sx("f.isfin", x.T), and(sx("<=", sx("to_real", v.T), sx("+", sx("fr", x.T), "1.0")), sx(">=", sx("to_real", v.T), sx("-", sx("fr", x.T), "1.0")))))
		e.assumeValid(v)
	case isInteger(from) && isInteger(to):
		fb, tb := from.Underlying().(*types.Basic), to.Underlying().(*types.Basic)
		if tb.Info()&types.IsUnsigned != 0 && (fb.Info()&types.IsUnsigned == 0 || s.intWidth(fb) > s.intWidth(tb)) {
			e.setVal(i, wrapUnsigned(x.T, to))
		} else if s.intWidth(tb) < s.intWidth(fb) && s.intWidth(tb) < 64 {
			// narrowing signed conversion: unconstrained within range
			e.havocVal(i)
		} else {
			e.setVal(i, x.T)
		}
	case isString(from) && isString(to):
		e.setVal(i, x.T)
	case isString(to) && isInteger(from):
		e.setVal(i, e.W.UF("str.ofrune", []string{"Int"}, "String", x.T))
	case isString(from): // string -> []byte / []rune
		sl, ok := to.Underlying().(*types.Slice)
		if ok && isByte(sl.Elem()) {
			r := e.newRef()
			h := s.ArrHeap(sl.Elem())
			arr := e.W.UF("str.bytes", []string{"String"}, "(Array Int Int)", x.T)
			e.emit(fmt.Sprintf("(assert (forall ((i!q Int)) (! (=> (and (<= 0 i!q) (< i!q (str.len %s))) (= (select %s i!q) (str.to_code (str.at %s i!q)))) :pattern ((select %s i!q)))))", x.T, arr, x.T, arr))
			e.setHeap(h, sx("store", e.heap(h), r, arr))
			e.setVal(i, sx("mkslice", r, sx("str.len", x.T)))
			// the bytes of a string convert back to that string
			e.assume(sx("=", e.W.UF("str.ofbytes", []string{"(Array Int Int)", "Int"}, "String", arr, sx("str.len", x.T)), x.T))
		} else {
			e.havocVal(i)
		}
	case isString(to): // []byte -> string
		sl, ok := from.Underlying().(*types.Slice)
		if ok && isByte(sl.Elem()) {
			arr := sx("select", e.heap(s.ArrHeap(sl.Elem())), sx("sref", x.T))
			str := e.W.UF("str.ofbytes", []string{"(Array Int Int)", "Int"}, "String", arr, sx("slen", x.T))
			v := e.setVal(i, str)
			e.assume(sx("=", sx("str.len", v.T), sx("slen", x.T)))
			e.emit(fmt.Sprintf("(assert (forall ((i!q Int)) (! (=> (and (<= 0 i!q) (< i!q (slen %s))) (= (str.to_code (str.at %s i!q)) (select %s i!q))) :pattern ((str.at %s i!q)))))", x.T, v.T, arr, v.T))
		} else {
			e.havocVal(i)
		}
	default:
		if s.SortOf(from) == s.SortOf(to) {
			e.setVal(i, x.T)
		} else {
			e.havocVal(i)
		}
	}
}

func isByte(t types.Type) bool {
	b, ok := t.Underlying().(*types.Basic)
	return ok && (b.Kind() == types.Uint8)
}

func (s *Sorts) intWidth(b *types.Basic) int {
	switch b.Kind() {
	case types.Int8, types.Uint8:
		return 8
	case types.Int16, types.Uint16:
		return 16
	case types.Int32, types.Uint32:
		return 32
	}
	return 64
}

func (e *FnEnc) sliceInstr(i *ssa.Slice) {
	x := e.val(i.X)
	s := e.sorts()
	var lo, hi string
	if i.Low != nil {
		lo = e.val(i.Low).T
	}
	if i.High != nil {
		hi = e.val(i.High).T
	}
	switch u := i.X.Type().Underlying().(type) {
	case *types.Basic: // string
		if lo == "" {
			lo = "0"
		}
		if hi == "" {
			hi = sx("str.len", x.T)
		}
		e.assume(and(sx("<=", "0", lo), sx("<=", lo, hi), sx("<=", hi, sx("str.len", x.T))))
		e.setVal(i, sx("str.substr", x.T, lo, sx("-", hi, lo)))
	case *types.Slice:
		if hi == "" {
			hi = sx("slen", x.T)
		}
		if lo == "" || lo == "0" {
			e.assume(and(sx("<=", "0", hi)))
			e.setVal(i, sx("mkslice", sx("sref", x.T), hi))
			if i.High != nil {
				e.note("A4: re-slicing x[:n] keeps the backing array; later appends are assumed not to alias")
			}
			return
		}
		e.assume(and(sx("<=", "0", lo), sx("<=", lo, hi)))
		r := e.newRef()
		h := s.ArrHeap(u.Elem())
		old := e.define("arr", "(Array Int "+s.SortOf(u.Elem())+")", sx("select", e.heap(h), sx("sref", x.T)))
		na := e.declare("arr", "(Array Int "+s.SortOf(u.Elem())+")")
		e.emit(fmt.Sprintf("(assert (forall ((i!q Int)) (! (=> (<= 0 i!q) (= (select %s i!q) (select %s (+ i!q %s)))) :pattern ((select %s i!q)))))", na, old, lo, na))
		e.setHeap(h, sx("store", e.heap(h), r, na))
		e.setVal(i, sx("mkslice", r, sx("-", hi, lo)))
		e.note("A4: sub-slice x[a:b] modelled as a copy")
	case *types.Pointer: // pointer to array
		at := u.Elem().Underlying().(*types.Array)
		l := e.locOf(x)
		arr, _ := e.loadIn(e.cur, l)
		if lo == "" {
			lo = "0"
		}
		if hi == "" {
			hi = fmt.Sprint(at.Len())
		}
		r := e.newRef()
		h := s.ArrHeap(at.Elem())
		if lo != "0" {
			e.abstract("slice of array with non-zero low bound")
		}
		e.setHeap(h, sx("store", e.heap(h), r, arr))
		e.setVal(i, sx("mkslice", r, sx("-", hi, lo)))
	default:
		e.havocVal(i)
	}
}

func (e *FnEnc) nextInstr(i *ssa.Next) {
	s := e.sorts()
	rng, _ := i.Iter.(*ssa.Range)
	hv, ok := e.rangeVis[i.Iter]
	if !ok || rng == nil {
		e.abstract("next on unknown iterator")
		e.havocVal(i)
		return
	}
	m := e.rangeMap[i.Iter]
	okN := e.declare("next.ok", "Bool")
	if i.IsString {
		pos := e.heap(hv)
		str := m.T
		e.assume(and(sx("<=", "0", pos), sx("<=", pos, sx("str.len", str))))
		e.assume(sx("=", okN, sx("<", pos, sx("str.len", str))))
		r := e.declare("next.rune", "Int")
		sz := e.declare("next.size", "Int")
		e.assume(implies(okN, and(sx("<=", "1", sz), sx("<=", sz, "4"), sx("<=", sx("+", pos, sz), sx("str.len", str)), sx("<=", "0", r), sx("<=", r, "1114111"))))
		e.assume(implies(okN, implies(sx("<", sx("str.to_code", sx("str.at", str, pos)), "128"), and(sx("=", sz, "1"), sx("=", r, sx("str.to_code", sx("str.at", str, pos)))))))
		idx := e.define("next.idx", "Int", pos)
		e.setHeap(hv, ite(okN, sx("+", pos, sz), pos))
		e.vals[i] = Val{Ty: i.Type(), Tup: []Val{{T: okN, Ty: types.Typ[types.Bool]}, {T: idx, Ty: types.Typ[types.Int]}, {T: r, Ty: types.Typ[types.Rune]}}}
		return
	}
	mt := rng.X.Type().Underlying().(*types.Map)
	ks := s.SortOf(mt.Key())
	k := e.declare("next.k", ks)
	vis := e.heap(hv)
	dom := e.declareEq("next.dom", "(Array "+ks+" Bool)", sx("select", e.heap(s.MapDom(mt.Key())), m.T))
	e.assume(implies(okN, and(sx("select", dom, k), not(sx("select", vis, k)))))
	e.assume(implies(not(okN), fmt.Sprintf("(forall ((k!q %s)) (! (=> (select %s k!q) (select %s k!q)) :pattern ((select %s k!q))))", ks, dom, vis, dom)))
	e.assume(implies(sx("=", m.T, "0"), not(okN)))
	vT := sx("select", sx("select", e.heap(s.MapVal(mt.Key(), mt.Elem())), m.T), k)
	vN := e.define("next.v", s.SortOf(mt.Elem()), vT)
	kv := Val{T: k, Ty: mt.Key()}
	vv := Val{T: vN, Ty: mt.Elem()}
	e.assumeValid(kv)
	e.assumeValid(vv)
	e.setHeap(hv, ite(okN, sx("store", vis, k, "true"), vis))
	e.vals[i] = Val{Ty: i.Type(), Tup: []Val{{T: okN, Ty: types.Typ[types.Bool]}, kv, vv}}
}

// escapes reports whether the address produced by an Alloc is used as a first-class value.
// ownedArg: the value is passed, in this call, only in positions the callee's contract declares "owned".
func (e *FnEnc) ownedArg(c *ssa.CallCommon, v ssa.Value) bool {
	f := c.StaticCallee()
	if f == nil || c.IsInvoke() {
		return false
	}
	con := e.W.ContractFor(f)
	if con == nil || len(con.Owned) == 0 {
		return false
	}
	for k, a := range c.Args {
		if a != v {
			continue
		}
		if k >= len(f.Params) {
			return false
		}
		ok := false
		for _, o := range con.Owned {
			if o == f.Params[k].Name() {
				ok = true
			}
		}
		if !ok {
			return false
		}
	}
	return true
}

// valueEscapes: the pointer / map value v is used as a first-class value somewhere other than in a position declared
// "owned" by the callee (stored, captured, returned, converted, passed to an unknown function).
func (e *FnEnc) valueEscapes(v ssa.Value) bool {
	refs := v.Referrers()
	if refs == nil {
		return true
	}
	_, isMap := v.Type().Underlying().(*types.Map)
	for _, r := range *refs {
		switch u := r.(type) {
		case *ssa.DebugRef:
		case *ssa.MapUpdate:
			if !isMap || u.Map != v {
				return true
			}
		case *ssa.Lookup:
			if !isMap || u.X != v {
				return true
			}
		case *ssa.Range:
		case *ssa.FieldAddr:
			if u.X != v || e.valueEscapes(u) {
				return true
			}
		case *ssa.IndexAddr:
			if u.X != v || e.valueEscapes(u) {
				return true
			}
		case *ssa.UnOp:
			if u.Op != token.MUL {
				return true
			}
		case *ssa.Store:
			if u.Val == v {
				return true
			}
		case *ssa.Call:
			if b, ok := u.Call.Value.(*ssa.Builtin); ok && (b.Name() == "len" || b.Name() == "delete") {
				continue
			}
			if !e.ownedArg(&u.Call, v) {
				return true
			}
		default:
			return true
		}
	}
	return false
}

// ownedSlice: the slice value is read from a field of an object owned by go/ssa, go/types, ... (b.Succs, fn.Blocks).
func (e *FnEnc) ownedSlice(v ssa.Value) bool {
	immutableStruct := func(t types.Type) bool {
		if p, ok := t.Underlying().(*types.Pointer); ok {
			t = p.Elem()
		}
		if _, ok := t.Underlying().(*types.Struct); !ok {
			return false
		}
		return immutableHeap(e.sorts().StructHeap(t).Name)
	}
	switch x := v.(type) {
	case *ssa.UnOp:
		if fa, ok := x.X.(*ssa.FieldAddr); ok && x.Op == token.MUL {
			return immutableStruct(fa.X.Type())
		}
	case *ssa.Field:
		return immutableStruct(x.X.Type())
	}
	return false
}

// escapeSites: the instructions at which the local object v (an Alloc or a MakeMap) becomes reachable by code outside
// this function. A store of v into another local object defers to that object's escape. all=true: unknown uses.
func (e *FnEnc) escapeSites(v ssa.Value, seen map[interface{}]bool, asHolder bool) (sites []ssa.Instruction, all bool) {
	var key interface{} = v
	if seen[key] && !asHolder {
		return nil, false
	}
	if asHolder {
		if seen[holderKey{v}] {
			return nil, false
		}
		seen[holderKey{v}] = true
	} else {
		seen[key] = true
	}
	localRoot := func(addr ssa.Value) *ssa.Alloc {
		for {
			switch a := addr.(type) {
			case *ssa.FieldAddr:
				addr = a.X
				continue
			case *ssa.IndexAddr:
				addr = a.X
				continue
			case *ssa.Alloc:
				return a
			}
			return nil
		}
	}
	var visit func(x ssa.Value, depth int, holder bool)
	visit = func(x ssa.Value, depth int, holder bool) {
		refs := x.Referrers()
		if refs == nil {
			all = true
			return
		}
		for _, r := range *refs {
			switch u := r.(type) {
			case *ssa.DebugRef:
			case *ssa.FieldAddr:
				if u.X == x {
					visit(u, depth+1, holder)
				}
			case *ssa.IndexAddr:
				if u.X == x {
					visit(u, depth+1, holder)
				}
			case *ssa.UnOp:
				if u.Op != token.MUL {
					sites = append(sites, u)
				} else if holder && isCarrierT(u.Type()) {
					// a pointer / map / slice read back from the object that holds ours may be ours: its uses count
					visit(u, depth+1, false)
				}
			case *ssa.Store:
				if u.Val == x {
					if L := localRoot(u.Addr); L != nil && L != v {
						s2, a2 := e.escapeSites(L, seen, true)
						sites = append(sites, s2...)
						all = all || a2
					} else {
						sites = append(sites, u)
					}
				}
			case *ssa.MapUpdate:
				// updating the map (ours or an alias of it) is a write, not an escape; storing x as key or value is
				if !(u.Map == x && u.Value != x && u.Key != x) {
					sites = append(sites, u)
				}
			case *ssa.Lookup:
				if u.X != x {
					sites = append(sites, u)
				}
			case *ssa.Range:
			case *ssa.Slice:
				if _, isArr := u.X.Type().Underlying().(*types.Pointer); !isArr {
					sites = append(sites, u)
				}
			case *ssa.Call:
				if b, ok := u.Call.Value.(*ssa.Builtin); ok && (b.Name() == "len" || b.Name() == "delete" || b.Name() == "cap") {
					continue
				}
				if depth != 0 || !e.ownedArg(&u.Call, x) {
					sites = append(sites, u)
				}
			case *ssa.MakeClosure:
				// a function literal handed only to the modelled sort functions runs during that call and is not
				// retained: capturing the variable is not an escape
				if !closureOnlySorts(u) && (holder || !readOnlyCapture(u, x)) {
					sites = append(sites, u)
				}
			case ssa.Instruction:
				sites = append(sites, u)
			}
		}
	}
	visit(v, 0, asHolder)
	return sites, all
}

type holderKey struct{ v ssa.Value }

// readOnlyCapture: the function literal only reads the captured variable x (every use of the corresponding free
// variable is a load): whoever gets hold of the literal cannot change the variable.
func readOnlyCapture(mc *ssa.MakeClosure, x ssa.Value) bool {
	fn, ok := mc.Fn.(*ssa.Function)
	if !ok {
		return false
	}
	found := false
	for k, b := range mc.Bindings {
		if b != x {
			continue
		}
		found = true
		if k >= len(fn.FreeVars) {
			return false
		}
		refs := fn.FreeVars[k].Referrers()
		if refs == nil {
			return false
		}
		for _, r := range *refs {
			switch u := r.(type) {
			case *ssa.DebugRef:
			case *ssa.UnOp:
				if u.Op != token.MUL {
					return false
				}
			default:
				return false
			}
		}
	}
	return found
}

func closureOnlySorts(mc *ssa.MakeClosure) bool {
	refs := mc.Referrers()
	if refs == nil {
		return false
	}
	for _, r := range *refs {
		switch u := r.(type) {
		case *ssa.DebugRef:
		case *ssa.Call:
			f := u.Call.StaticCallee()
			if f == nil {
				return false
			}
			switch calleeName(f) {
			case "sort.Slice", "sort.SliceStable":
			default:
				return false
			}
		default:
			return false
		}
	}
	return true
}

// escapeInfo: never=true if the object does not escape at all; otherwise the region of program points from which it
// may have escaped (nil with never=false: treat as escaped from the start).
func (e *FnEnc) escapeInfo(v ssa.Value) (info *escInfo, never bool) {
	sites, all := e.escapeSites(v, map[interface{}]bool{}, false)
	if all {
		return nil, false
	}
	if len(sites) == 0 {
		return nil, true
	}
	first := map[*ssa.BasicBlock]int{}
	var work []*ssa.BasicBlock
	for _, s := range sites {
		b := s.Block()
		if b == nil {
			return nil, false
		}
		idx := 0
		for k, in := range b.Instrs {
			if in == s {
				idx = k
			}
		}
		if f, ok := first[b]; !ok || idx < f {
			first[b] = idx
		}
		work = append(work, b)
	}
	for len(work) > 0 {
		b := work[0]
		work = work[1:]
		for _, sc := range b.Succs {
			if f, ok := first[sc]; !ok || f != 0 {
				first[sc] = 0
				work = append(work, sc)
			}
		}
	}
	return &escInfo{first: first}, false
}

func (e *FnEnc) escapes(a *ssa.Alloc) bool {
	if a.Heap {
		// go/ssa marks "new" allocations; still check uses
	}
	var visit func(v ssa.Value, depth int) bool
	visit = func(v ssa.Value, depth int) bool {
		refs := v.Referrers()
		if refs == nil {
			return true
		}
		for _, r := range *refs {
			switch u := r.(type) {
			case *ssa.FieldAddr:
				if u.X == v && visit(u, depth+1) {
					return true
				}
			case *ssa.IndexAddr:
				if u.X == v && visit(u, depth+1) {
					return true
				}
			case *ssa.UnOp:
				if u.Op != token.MUL {
					return true
				}
			case *ssa.Store:
				if u.Val == v {
					return true
				}
			case *ssa.DebugRef:
			case *ssa.Slice:
				if _, isArr := u.X.Type().Underlying().(*types.Pointer); !isArr {
					return true
				}
				// slice of a local array: copy semantics in this model
			case *ssa.Call:
				if depth != 0 || !e.ownedArg(&u.Call, v) {
					return true
				}
			default:
				return true
			}
		}
		return false
	}
	return visit(a, 0)
}

// mapEscapes: the map created here is used as a first-class value (stored, passed, returned, captured).
func (e *FnEnc) mapEscapes(m *ssa.MakeMap) bool {
	refs := m.Referrers()
	if refs == nil {
		return true
	}
	for _, r := range *refs {
		switch u := r.(type) {
		case *ssa.MapUpdate:
			if u.Map != m {
				return true
			}
		case *ssa.Lookup:
			if u.X != m {
				return true
			}
		case *ssa.Range:
		case *ssa.DebugRef:
		case *ssa.Call:
			b, ok := u.Call.Value.(*ssa.Builtin)
			if ok && (b.Name() == "len" || b.Name() == "delete") {
				continue
			}
			if !e.ownedArg(&u.Call, m) {
				return true
			}
		default:
			return true
		}
	}
	return false
}

// updateAsserts generates the obligations of "mapupdate FIELD assert expr" clauses before an update of the map
// read from a struct field of that name (or held in a local variable of that name).
func (e *FnEnc) updateAsserts(i *ssa.MapUpdate, k, v Val) {
	if e.con == nil || len(e.con.UpdateAsserts) == 0 {
		return
	}
	name := ""
	if u, ok := i.Map.(*ssa.UnOp); ok {
		if fa, ok := u.X.(*ssa.FieldAddr); ok {
			if st, ok := fa.X.Type().Underlying().(*types.Pointer).Elem().Underlying().(*types.Struct); ok {
				name = st.Field(fa.Field).Name()
			}
		}
	}
	if f, ok := i.Map.(*ssa.Field); ok {
		if st, ok := f.X.Type().Underlying().(*types.Struct); ok {
			name = st.Field(f.Field).Name()
		}
	}
	for n, a := range e.con.UpdateAsserts {
		if a.Callee != name || !clauseActive(a.Clause, e.prop) {
			continue
		}
		env := e.specEnv(e.cur, e.initState, nil)
		env.site = e.curBlock
		env.vars["key"] = k
		env.vars["value"] = v
		e.obligeClause(env, a.Clause, fmt.Sprintf("mapupdate.%s.assert%d@%s", name, n+1, e.posOf(i)), "protocol", e.curGuard, e.posOf(i))
	}
}

// isPkgInit: the function being encoded is a package initialiser (where package-level variables get their values).
func (e *FnEnc) isPkgInit() bool {
	return e.fn != nil && e.fn.Name() == "init" && e.fn.Synthetic != ""
}
