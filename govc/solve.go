package govc

import (
	"bytes"
	"context"
	"fmt"
	"os"
	"os/exec"
	"path/filepath"
	"strings"
	"sync"
	"time"
)

type SolveResult struct {
	Status  string // unsat, sat, unknown, timeout, error
	Backend string
	Ms      int64
	Output  string
	Bytes   int
	File    string
}

type Solver struct {
	Name string
	Args func(file string, timeout time.Duration) []string
	Bin  string
	NeedsLogic bool
}

var Solvers = []Solver{
	{Name: "z3-5.1.0", Bin: "z3-new", Args: func(f string, t time.Duration) []string {
		return []string{fmt.Sprintf("-T:%d", int(t.Seconds())+1), f}
	}},
	{Name: "z3-5.1.0/arith2", Bin: "z3-new", Args: func(f string, t time.Duration) []string {
		return []string{fmt.Sprintf("-T:%d", int(t.Seconds())+1), "smt.arith.solver=2", "smt.mbqi=false", f}
	}},
	{Name: "cvc5-1.0.3", Bin: "cvc5", NeedsLogic: true, Args: func(f string, t time.Duration) []string {
		return []string{"--lang=smt2", "--strings-exp", fmt.Sprintf("--tlimit=%d", t.Milliseconds()), f}
	}},
	{Name: "z3-4.8.12", Bin: "z3", Args: func(f string, t time.Duration) []string {
		return []string{fmt.Sprintf("-T:%d", int(t.Seconds())+1), f}
	}},
}

func runSolver(ctx context.Context, s Solver, file string, timeout time.Duration) SolveResult {
	start := time.Now()
	cctx, cancel := context.WithTimeout(ctx, timeout+2*time.Second)
	defer cancel()
	cmd := exec.CommandContext(cctx, s.Bin, s.Args(file, timeout)...)
	var out bytes.Buffer
	cmd.Stdout = &out
	cmd.Stderr = &out
	_ = cmd.Run()
	res := SolveResult{Backend: s.Name, Ms: time.Since(start).Milliseconds(), Output: out.String(), File: file}
	first := ""
	for _, l := range strings.Split(out.String(), "\n") {
		l = strings.TrimSpace(l)
		if l == "" || strings.HasPrefix(l, "WARNING") {
			continue
		}
		first = l
		break
	}
	switch {
	case first == "unsat":
		res.Status = "unsat"
	case first == "sat":
		res.Status = "sat"
	case first == "unknown":
		res.Status = "unknown"
	case first == "timeout" || cctx.Err() != nil || strings.Contains(out.String(), "interrupted by timeout") || strings.Contains(out.String(), "timeout"):
		res.Status = "timeout"
	default:
		res.Status = "error"
	}
	return res
}

// Solve writes the query and races the solvers; the first definitive answer wins.
func Solve(dir, name, body string, timeout time.Duration, wantModel bool) SolveResult {
	var results []SolveResult
	ctx, cancel := context.WithCancel(context.Background())
	defer cancel()
	ch := make(chan SolveResult, len(Solvers))
	var wg sync.WaitGroup
	for k, s := range Solvers {
		text := body
		if s.NeedsLogic {
			text = "(set-option :produce-models true)\n(set-logic ALL)\n" + body
		} else {
			text = "(set-option :produce-models true)\n" + body
		}
		if wantModel {
			text += "(get-model)\n"
		}
		file := filepath.Join(dir, fmt.Sprintf("%s.%d.smt2", mangle(name), k))
		if err := os.WriteFile(file, []byte(text), 0o644); err != nil {
			return SolveResult{Status: "error", Output: err.Error()}
		}
		wg.Add(1)
		go func(s Solver, file string) {
			defer wg.Done()
			ch <- runSolver(ctx, s, file, timeout)
		}(s, file)
	}
	go func() { wg.Wait(); close(ch) }()
	var best *SolveResult
	for r := range ch {
		r.Bytes = len(body)
		results = append(results, r)
		if r.Status == "unsat" || r.Status == "sat" {
			rr := r
			best = &rr
			cancel()
			break
		}
	}
	if best != nil {
		return *best
	}
	// no definitive answer: prefer unknown over timeout over error, keep all outputs
	pick := results[0]
	rank := map[string]int{"unknown": 0, "timeout": 1, "error": 2}
	var outs []string
	for _, r := range results {
		if rank[r.Status] < rank[pick.Status] {
			pick = r
		}
		outs = append(outs, fmt.Sprintf("[%s %s %dms] %s", r.Backend, r.Status, r.Ms, firstLines(r.Output, 3)))
	}
	pick.Output = strings.Join(outs, "\n")
	return pick
}

func firstLines(s string, n int) string {
	ls := strings.Split(strings.TrimSpace(s), "\n")
	if len(ls) > n {
		ls = ls[:n]
	}
	return strings.Join(ls, " | ")
}

// Query renders the SMT text of an obligation.
func (o *Obligation) Query(w *World) string {
	var b strings.Builder
	b.WriteString(w.Header())
	for _, l := range o.enc.script[:o.Cut] {
		b.WriteString(l)
		b.WriteByte('\n')
	}
	fmt.Fprintf(&b, "(assert %s)\n", o.Guard)
	fmt.Fprintf(&b, "(assert (not %s))\n", o.Goal)
	b.WriteString("(check-sat)\n")
	return b.String()
}
