package govc

import (
	"fmt"
	"go/constant"
	"go/types"
	"strconv"
	"strings"

	"golang.org/x/tools/go/ssa"
)

// Env is the environment a spec expression is evaluated in.
type Env struct {
	e      *FnEnc
	st     State
	old    State
	vars   map[string]Val
	lookup func(env *Env, name string) (Val, bool)
	pkg    *types.Package
	depth  int
	guard  string // guard under which side assumptions (map length axioms) are emitted
	site    *ssa.BasicBlock // program point of the clause (name resolution)
	prevEnv *Env  // environment of the loop header (inside 'update' clauses: prev(e))
	pre     State // heap at loop entry (inside loop clauses)
	oldMode bool  // evaluating inside old(...): a parameter denotes its value on function entry
	preMode bool  // evaluating inside pre(...): loop variables denote their values on loop entry
	loopOrd int   // ordinal of the loop whose header names are in scope (0: none)
}

func (env *Env) child() *Env {
	c := *env
	c.vars = map[string]Val{}
	for k, v := range env.vars {
		c.vars[k] = v
	}
	return &c
}

type specErr struct{ msg string }

func (s specErr) Error() string { return s.msg }

func fail(f string, a ...interface{}) { panic(specErr{fmt.Sprintf(f, a...)}) }

// Eval evaluates a boolean spec expression, returning an SMT term.
func (env *Env) EvalBool(x Expr) (t string, err error) {
	defer func() {
		if r := recover(); r != nil {
			if se, ok := r.(specErr); ok {
				err = se
				return
			}
			panic(r)
		}
	}()
	v := env.eval(x)
	if env.sortOf(v) != "Bool" {
		fail("expression is not boolean (sort %s)", env.sortOf(v))
	}
	return v.T, nil
}

func (env *Env) EvalVal(x Expr) (v Val, err error) {
	defer func() {
		if r := recover(); r != nil {
			if se, ok := r.(specErr); ok {
				err = se
				return
			}
			panic(r)
		}
	}()
	return env.eval(x), nil
}

func (env *Env) sortOf(v Val) string {
	if v.SetElem != nil {
		return "(Array " + env.e.sorts().SortOf(v.SetElem) + " Bool)"
	}
	if v.Ty != nil {
		return env.e.sorts().SortOf(v.Ty)
	}
	return v.Sort
}

var tInt = types.Typ[types.Int]
var tBool = types.Typ[types.Bool]
var tFloat = types.Typ[types.Float64]
var tString = types.Typ[types.String]

func (env *Env) coerce(a, b Val) (Val, Val) {
	sa, sb := env.sortOf(a), env.sortOf(b)
	if sa == "Flt" && sb == "Int" {
		return a, Val{T: sx("f.ofint", b.T), Ty: tFloat}
	}
	if sa == "Int" && sb == "Flt" {
		return Val{T: sx("f.ofint", a.T), Ty: tFloat}, b
	}
	// nil against slices
	if sa == "Slice" && sb == "Int" && b.T == "0" {
		return Val{T: sx("sref", a.T), Ty: tInt}, b
	}
	if sb == "Slice" && sa == "Int" && a.T == "0" {
		return a, Val{T: sx("sref", b.T), Ty: tInt}
	}
	return a, b
}

func (env *Env) deref(v Val) Val {
	if v.Loc != nil {
		t, ty := env.e.loadIn(env.st, v.Loc)
		return Val{T: t, Ty: ty}
	}
	pt, ok := v.Ty.Underlying().(*types.Pointer)
	if !ok {
		fail("cannot dereference %s", v.Ty)
	}
	h := env.e.sorts().CellHeap(pt.Elem())
	return Val{T: sx("select", env.e.heapIn(env.st, h), v.T), Ty: pt.Elem()}
}

func (env *Env) eval(x Expr) Val {
	s := env.e.sorts()
	switch n := x.(type) {
	case *EInt:
		return Val{T: intLit(n.V), Ty: tInt}
	case *EFloat:
		// a float literal in a contract denotes the same float64 value the Go literal would
		f, err := strconv.ParseFloat(n.V, 64)
		if err != nil {
			fail("bad float literal %s", n.V)
		}
		return Val{T: "(fin " + ratLit(constant.MakeFloat64(f)) + ")", Ty: tFloat}
	case *EStr:
		return Val{T: strLit(n.V), Ty: tString}
	case *EBool:
		if n.V {
			return Val{T: "true", Ty: tBool}
		}
		return Val{T: "false", Ty: tBool}
	case *ENil:
		return Val{T: "0", Ty: tInt}
	case *EIdent:
		if v, ok := env.vars[n.Name]; ok {
			return v
		}
		if env.lookup != nil {
			if v, ok := env.lookup(env, n.Name); ok {
				return v
			}
		}
		if p, ok := env.e.W.Contracts.Preds[n.Name]; ok && len(p.Params) == 0 {
			return env.expandPred(p, nil)
		}
		if v, ok := env.e.W.SpecConst(env, n.Name); ok {
			return v
		}
		fail("unknown identifier %q", n.Name)
	case *EOld:
		c := *env
		if env.old != nil {
			c.st = env.old
		}
		c.oldMode = true
		return c.eval(n.X)
	case *ECall:
		if n.Fun == "prev" && len(n.Args) == 1 {
			if env.prevEnv == nil {
				fail("prev() is only meaningful in loop update clauses")
			}
			return env.prevEnv.eval(n.Args[0])
		}
		if n.Fun == "pre" && len(n.Args) == 1 {
			c := *env
			if env.pre != nil {
				c.st = env.pre
				c.preMode = true
			} else if env.old != nil {
				c.st = env.old
			}
			return c.eval(n.Args[0])
		}
		return env.callSpec(n)
	case *EUnary:
		v := env.eval(n.X)
		switch n.Op {
		case "!":
			return Val{T: not(v.T), Ty: tBool}
		case "-":
			if env.sortOf(v) == "Flt" {
				return Val{T: sx("f.neg", v.T), Ty: tFloat}
			}
			return Val{T: sx("-", v.T), Ty: tInt}
		case "*":
			// "*x" on a local that go/ssa keeps as a plain value: contracts write "*x" for a local that lives in a cell
			// (captured by a closure, address taken); when a refactoring removes the capture the same source variable
			// is a register, and Go's typing leaves no other reading of "*x" for a non-pointer x
			if _, isId := n.X.(*EIdent); isId && v.Loc == nil && v.Ty != nil {
				if _, isPtr := v.Ty.Underlying().(*types.Pointer); !isPtr {
					return v
				}
			}
			return env.deref(v)
		}
	case *EField:
		if id, ok := n.X.(*EIdent); ok && env.pkg != nil {
			if _, isVar := env.vars[id.Name]; !isVar {
				for _, imp := range env.pkg.Imports() {
					if imp.Name() == id.Name {
						if c, ok := imp.Scope().Lookup(n.Name).(*types.Const); ok {
							ty := c.Type()
							if b, ok := ty.Underlying().(*types.Basic); ok && b.Info()&types.IsUntyped != 0 {
								ty = types.Default(ty)
							}
							return env.e.constVal(ssa.NewConst(c.Val(), ty))
						}
						if sp := env.e.W.SSAPkgs[imp.Path()]; sp != nil {
							if g, ok := sp.Members[n.Name].(*ssa.Global); ok && env.e.W.ImmutableGlobal(g) {
								return Val{T: env.e.W.GlobalConst(g), Ty: g.Type().Underlying().(*types.Pointer).Elem()}
							}
						}
					}
				}
			}
		}
		v := env.eval(n.X)
		if v.Tup != nil {
			var k int
			if _, err := fmt.Sscanf(n.Name, "%d", &k); err == nil && k < len(v.Tup) {
				return v.Tup[k]
			}
		}
		if v.Ty == nil {
			fail("field %s of untyped value", n.Name)
		}
		if _, ok := v.Ty.Underlying().(*types.Pointer); ok || v.Loc != nil {
			v = env.deref(v)
		}
		st, ok := v.Ty.Underlying().(*types.Struct)
		if !ok {
			fail("field %s of non-struct %s", n.Name, v.Ty)
		}
		for i := 0; i < st.NumFields(); i++ {
			if st.Field(i).Name() == n.Name {
				fv := Val{T: s.GetField(v.Ty, v.T, i), Ty: st.Field(i).Type()}
				if _, isSl := fv.Ty.Underlying().(*types.Slice); isSl && immutableHeap(s.StructHeap(v.Ty).Name) {
					fv.Owned = true // a slice held by a go/ssa / go/types object: its elements live in the owned heap
				}
				env.mapTypeFact(fv)
				return fv
			}
		}
		fail("no field %s in %s", n.Name, v.Ty)
	case *EIndex:
		v := env.eval(n.X)
		i := env.eval(n.I)
		if v.SetElem != nil {
			return Val{T: sx("select", v.T, i.T), Ty: tBool}
		}
		if v.Ty == nil {
			// raw array sort: (Array K V)
			if strings.HasPrefix(v.Sort, "(Array ") {
				_, vs := splitArraySort(v.Sort)
				return Val{T: sx("select", v.T, i.T), Sort: vs, Ty: goTypeOfSort(vs)}
			}
			fail("index of untyped value")
		}
		switch u := v.Ty.Underlying().(type) {
		case *types.Slice:
			h := s.ArrHeap(u.Elem())
			if v.Owned {
				h = s.ArrHeapOwned(u.Elem())
			}
			return Val{T: sx("select", sx("select", env.e.heapIn(env.st, h), sx("sref", v.T)), i.T), Ty: u.Elem()}
		case *types.Map:
			dom := sx("select", sx("select", env.e.heapIn(env.st, s.MapDom(u.Key())), v.T), i.T)
			val := sx("select", sx("select", env.e.heapIn(env.st, s.MapVal(u.Key(), u.Elem())), v.T), i.T)
			return Val{T: ite(dom, val, s.Zero(u.Elem())), Ty: u.Elem()}
		case *types.Array:
			return Val{T: sx("select", v.T, i.T), Ty: u.Elem()}
		case *types.Basic:
			if isString(v.Ty) {
				return Val{T: sx("str.to_code", sx("str.at", v.T, i.T)), Ty: tInt}
			}
		}
		fail("cannot index %s", v.Ty)
	case *EBinary:
		return env.binary(n)
	case *EQuant:
		return env.quant(n)
	}
	fail("unsupported expression %T", x)
	return Val{}
}

func splitArraySort(s string) (string, string) {
	// "(Array K V)" with possibly nested sorts
	inner := strings.TrimSuffix(strings.TrimPrefix(s, "(Array "), ")")
	depth := 0
	for i, c := range inner {
		switch c {
		case '(':
			depth++
		case ')':
			depth--
		case ' ':
			if depth == 0 {
				return inner[:i], inner[i+1:]
			}
		}
	}
	return inner, ""
}

func goTypeOfSort(s string) types.Type {
	switch s {
	case "Int":
		return tInt
	case "Bool":
		return tBool
	case "Flt":
		return tFloat
	case "String":
		return tString
	}
	return nil
}

func (env *Env) binary(n *EBinary) Val {
	switch n.Op {
	case "&&":
		return Val{T: and(env.eval(n.X).T, env.eval(n.Y).T), Ty: tBool}
	case "||":
		return Val{T: or(env.eval(n.X).T, env.eval(n.Y).T), Ty: tBool}
	case "==>":
		return Val{T: implies(env.eval(n.X).T, env.eval(n.Y).T), Ty: tBool}
	case "<==>":
		return Val{T: sx("=", env.eval(n.X).T, env.eval(n.Y).T), Ty: tBool}
	case "in":
		k := env.eval(n.X)
		m := env.eval(n.Y)
		set := env.asSet(m)
		return Val{T: sx("select", set.T, k.T), Ty: tBool}
	}
	a, b := env.coerce(env.addrOf(env.eval(n.X)), env.addrOf(env.eval(n.Y)))
	sa := env.sortOf(a)
	switch sa {
	case "Flt":
		switch n.Op {
		case "+":
			return Val{T: sx("f.add", a.T, b.T), Ty: tFloat}
		case "-":
			return Val{T: sx("f.sub", a.T, b.T), Ty: tFloat}
		case "*":
			return Val{T: sx("f.mul", a.T, b.T), Ty: tFloat}
		case "/":
			return Val{T: sx("f.div", a.T, b.T), Ty: tFloat}
		case "==":
			return Val{T: sx("f.eq", a.T, b.T), Ty: tBool}
		case "!=":
			return Val{T: not(sx("f.eq", a.T, b.T)), Ty: tBool}
		case "<":
			return Val{T: sx("f.lt", a.T, b.T), Ty: tBool}
		case "<=":
			return Val{T: sx("f.le", a.T, b.T), Ty: tBool}
		case ">":
			return Val{T: sx("f.lt", b.T, a.T), Ty: tBool}
		case ">=":
			return Val{T: sx("f.le", b.T, a.T), Ty: tBool}
		}
	case "String":
		switch n.Op {
		case "+":
			return Val{T: sx("str.++", a.T, b.T), Ty: tString}
		case "<":
			return Val{T: sx("str.<", a.T, b.T), Ty: tBool}
		case "<=":
			return Val{T: sx("str.<=", a.T, b.T), Ty: tBool}
		case ">":
			return Val{T: sx("str.<", b.T, a.T), Ty: tBool}
		case ">=":
			return Val{T: sx("str.<=", b.T, a.T), Ty: tBool}
		}
	case "Int":
		switch n.Op {
		case "+", "-", "*":
			return Val{T: sx(n.Op, a.T, b.T), Ty: tInt}
		case "/":
			return Val{T: goDiv(a.T, b.T), Ty: tInt}
		case "%":
			return Val{T: goMod(a.T, b.T), Ty: tInt}
		case "<", "<=", ">", ">=":
			return Val{T: sx(n.Op, a.T, b.T), Ty: tBool}
		}
	}
	switch n.Op {
	case "==":
		if sa != env.sortOf(b) {
			fail("comparison of different sorts %s and %s", sa, env.sortOf(b))
		}
		return Val{T: sx("=", a.T, b.T), Ty: tBool}
	case "!=":
		if sa != env.sortOf(b) {
			fail("comparison of different sorts %s and %s", sa, env.sortOf(b))
		}
		return Val{T: not(sx("=", a.T, b.T)), Ty: tBool}
	}
	fail("operator %s not defined on sort %s", n.Op, sa)
	return Val{}
}

func (env *Env) asSet(m Val) Val {
	if m.SetElem != nil {
		return m
	}
	if m.Ty == nil && strings.HasPrefix(m.Sort, "(Array ") {
		if ks, vs := splitArraySort(m.Sort); vs == "Bool" {
			if kt := goTypeOfSort(ks); kt != nil {
				return Val{T: m.T, SetElem: kt}
			}
		}
	}
	if m.Ty != nil {
		if mt, ok := m.Ty.Underlying().(*types.Map); ok {
			return Val{T: sx("select", env.e.heapIn(env.st, env.e.sorts().MapDom(mt.Key())), m.T), SetElem: mt.Key()}
		}
	}
	fail("not a set or map")
	return Val{}
}

func (env *Env) quant(n *EQuant) Val {
	c := env.child()
	var binds, guards []string
	for _, qv := range n.Vars {
		name := fmt.Sprintf("q.%s!%d", mangle(qv.Name), env.e.nextQ())
		switch {
		case qv.Lo != nil:
			lo, hi := env.eval(qv.Lo), env.eval(qv.Hi)
			binds = append(binds, fmt.Sprintf("(%s Int)", name))
			guards = append(guards, sx("<=", lo.T, name), sx("<", name, hi.T))
			c.vars[qv.Name] = Val{T: name, Ty: tInt}
		case qv.Keys != nil:
			set := env.asSet(env.eval(qv.Keys))
			binds = append(binds, fmt.Sprintf("(%s %s)", name, env.e.sorts().SortOf(set.SetElem)))
			guards = append(guards, sx("select", set.T, name))
			c.vars[qv.Name] = Val{T: name, Ty: set.SetElem}
		default:
			ty := env.e.W.ResolveType(qv.Type, env.pkg)
			if ty == nil {
				fail("unknown type %q", qv.Type)
			}
			if mt, ok := ty.Underlying().(*types.Map); ok {
				// a quantified map is a mathematical (total) array, not a heap reference
				srt := "(Array " + env.e.sorts().SortOf(mt.Key()) + " " + env.e.sorts().SortOf(mt.Elem()) + ")"
				binds = append(binds, fmt.Sprintf("(%s %s)", name, srt))
				c.vars[qv.Name] = Val{T: name, Sort: srt}
				continue
			}
			binds = append(binds, fmt.Sprintf("(%s %s)", name, env.e.sorts().SortOf(ty)))
			c.vars[qv.Name] = Val{T: name, Ty: ty}
		}
	}
	body := c.eval(n.Body)
	g := and(guards...)
	var t string
	if n.Forall && len(n.Triggers) > 0 {
		var ps []string
		for _, tr := range n.Triggers {
			ps = append(ps, c.eval(tr).T)
		}
		return Val{T: fmt.Sprintf("(forall (%s) (! %s :pattern (%s)))", strings.Join(binds, " "), implies(g, body.T), strings.Join(ps, " ")), Ty: tBool}
	}
	if n.Forall {
		t = fmt.Sprintf("(forall (%s) %s)", strings.Join(binds, " "), implies(g, body.T))
	} else {
		t = fmt.Sprintf("(exists (%s) %s)", strings.Join(binds, " "), and(g, body.T))
	}
	return Val{T: t, Ty: tBool}
}

func (e *FnEnc) nextQ() int { e.fresh++; return e.fresh }

func (env *Env) expandPred(p *Pred, args []Val) Val {
	if env.depth > 20 {
		fail("pred expansion too deep (%s)", p.Name)
	}
	if len(args) != len(p.Params) {
		fail("pred %s expects %d arguments", p.Name, len(p.Params))
	}
	if p.Opaque && !env.e.revealed(p.Name) {
		// opaque: an uninterpreted function of the arguments (slices contribute their row and length)
		var sorts, ts []string
		for i, a := range args {
			if ty := env.e.W.ResolveType(p.Params[i].Type, env.pkg); ty != nil && a.SetElem == nil && a.Tup == nil && a.Loc == nil {
				a.Ty = ty
			}
			if a.Ty != nil {
				if st, ok := a.Ty.Underlying().(*types.Slice); ok {
					h := env.e.heapIn(env.st, env.e.sorts().ArrHeap(st.Elem()))
					sorts = append(sorts, "(Array Int "+env.e.sorts().SortOf(st.Elem())+")", "Int")
					ts = append(ts, sx("select", h, sx("sref", a.T)), sx("slen", a.T))
					continue
				}
				switch a.Ty.Underlying().(type) {
				case *types.Pointer, *types.Map:
					fail("opaque pred %s: pointer and map parameters are not supported", p.Name)
				}
			}
			sorts = append(sorts, env.sortOf(a))
			ts = append(ts, a.T)
		}
		return Val{T: env.e.W.UF("opq."+p.Name, sorts, "Bool", ts...), Ty: tBool}
	}
	c := env.child()
	c.depth = env.depth + 1
	c.lookup = nil
	c.vars = map[string]Val{}
	for i, pr := range p.Params {
		a := args[i]
		if ty := env.e.W.ResolveType(pr.Type, env.pkg); ty != nil {
			// typed parameter: coerce untyped int literals to floats
			if isFloat(ty) && env.sortOf(a) == "Int" {
				a = Val{T: sx("f.ofint", a.T), Ty: ty}
			}
			if a.SetElem == nil && a.Tup == nil && a.Loc == nil {
				a.Ty = ty
			}
		}
		c.vars[pr.Name] = a
	}
	return c.eval(p.Body)
}

func (env *Env) callSpec(n *ECall) Val {
	s := env.e.sorts()
	arg := func(i int) Val {
		if i >= len(n.Args) {
			fail("%s: missing argument %d", n.Fun, i)
		}
		return env.eval(n.Args[i])
	}
	switch n.Fun {
	case "len":
		v := arg(0)
		if v.SetElem != nil {
			fail("len of set")
		}
		switch u := v.Ty.Underlying().(type) {
		case *types.Slice:
			return Val{T: sx("slen", v.T), Ty: tInt}
		case *types.Basic:
			return Val{T: sx("str.len", v.T), Ty: tInt}
		case *types.Map:
			return Val{T: env.e.mapLenIn(env.st, u.Key(), v.T), Ty: tInt}
		case *types.Array:
			return Val{T: fmt.Sprint(u.Len()), Ty: tInt}
		}
		fail("len of %s", v.Ty)
	case "keys":
		return env.asSet(arg(0))
	case "contains":
		return Val{T: sx("str.contains", arg(0).T, arg(1).T), Ty: tBool}
	case "hasPrefix":
		return Val{T: sx("str.prefixof", arg(1).T, arg(0).T), Ty: tBool}
	case "hasSuffix":
		return Val{T: sx("str.suffixof", arg(1).T, arg(0).T), Ty: tBool}
	case "lower":
		return Val{T: sx("str.lower", arg(0).T), Ty: tString}
	case "upper":
		return Val{T: sx("str.upper", arg(0).T), Ty: tString}
	case "itoa":
		return Val{T: sx("str.itoa", arg(0).T), Ty: tString}
	case "caseFoldInstance":
		// the instance contains(a,b) ==> contains(lower(a),lower(b)) of the case-folding axiom, as a formula
		a, b := arg(0), arg(1)
		return Val{T: implies(sx("str.contains", a.T, b.T), sx("str.contains", sx("str.lower", a.T), sx("str.lower", b.T))), Ty: tBool}
	case "bytesToString":
		v := arg(0)
		if !isByteSlice(v.Ty) {
			fail("bytesToString needs a []byte")
		}
		row := sx("select", env.e.heapIn(env.st, s.ArrHeap(types.Typ[types.Uint8])), sx("sref", v.T))
		return Val{T: env.e.W.UF("str.ofbytes", []string{"(Array Int Int)", "Int"}, "String", row, sx("slen", v.T)), Ty: tString}
	case "fmtPiece":
		// fmtPiece("%08.4f", x): how fmt renders x under that verb (uninterpreted; the same function Sprintf uses)
		vb, ok := n.Args[0].(*EStr)
		if !ok {
			fail("fmtPiece(verb, x)")
		}
		x := arg(1)
		return Val{T: env.e.W.UF("fmt."+mangle(vb.V)+"."+sortID(env.sortOf(x)), []string{env.sortOf(x)}, "String", x.T), Ty: tString}
	case "trimOf":
		a, b := arg(0), arg(1)
		t := env.e.W.UF("str.trim", []string{"String", "String"}, "String", a.T, b.T)
		if !strings.Contains(t, "q.") && !strings.Contains(t, "!q") {
			env.e.emit(fmt.Sprintf("(assert (str.contains %s %s))", a.T, t)) // Trim returns a substring of its argument
		}
		return Val{T: t, Ty: tString}
	case "trimPrefix":
		a, b := arg(0), arg(1)
		return Val{T: ite(sx("str.prefixof", b.T, a.T), sx("str.substr", a.T, sx("str.len", b.T), sx("-", sx("str.len", a.T), sx("str.len", b.T))), a.T), Ty: tString}
	case "substr":
		return Val{T: sx("str.substr", arg(0).T, arg(1).T, sx("-", arg(2).T, arg(1).T)), Ty: tString}
	case "finite":
		return Val{T: sx("f.isfin", env.toFloat(arg(0)).T), Ty: tBool}
	case "isNaN":
		return Val{T: sx("f.isnan", env.toFloat(arg(0)).T), Ty: tBool}
	case "isInf":
		return Val{T: sx("f.isinf", env.toFloat(arg(0)).T), Ty: tBool}
	case "float":
		return env.toFloat(arg(0))
	case "fabs":
		return Val{T: sx("f.abs", env.toFloat(arg(0)).T), Ty: tFloat}
	case "abs":
		v := arg(0)
		if env.sortOf(v) == "Flt" {
			return Val{T: sx("f.abs", v.T), Ty: tFloat}
		}
		return Val{T: ite(sx("<", v.T, "0"), sx("-", v.T), v.T), Ty: tInt}
	case "min", "max":
		a, b := arg(0), arg(1)
		op := "<="
		if n.Fun == "max" {
			op = ">="
		}
		return Val{T: ite(sx(op, a.T, b.T), a.T, b.T), Ty: tInt}
	case "ite":
		c, a, b := arg(0), arg(1), arg(2)
		a, b = env.coerce(a, b)
		r := a
		r.T = ite(c.T, a.T, b.T)
		return r
	case "with":
		// with(structValue, "Field", v): the struct with one field replaced
		v := arg(0)
		if _, ok := v.Ty.Underlying().(*types.Pointer); ok || v.Loc != nil {
			v = env.deref(v)
		}
		fn, ok := n.Args[1].(*EStr)
		st, ok2 := v.Ty.Underlying().(*types.Struct)
		if !ok || !ok2 {
			fail("with(struct, \"Field\", value) expected")
		}
		nv := arg(2)
		for i := 0; i < st.NumFields(); i++ {
			if st.Field(i).Name() == fn.V {
				return Val{T: s.UpdateField(v.Ty, v.T, i, nv.T), Ty: v.Ty}
			}
		}
		fail("no field %s", fn.V)
	case "fieldaddr":
		// fieldaddr(p, "f"): the address &p.f as the integer identity the generator gives derived addresses
		v := arg(0)
		fn, ok := n.Args[1].(*EStr)
		if !ok {
			fail("fieldaddr(p, \"field\") expected")
		}
		pt, ok := v.Ty.Underlying().(*types.Pointer)
		if !ok {
			fail("fieldaddr of non-pointer")
		}
		l := &Loc{Heap: s.CellHeap(pt.Elem()), Ref: v.T, RootTy: pt.Elem()}
		cur := pt.Elem()
		for _, fname := range strings.Split(fn.V, ".") {
			st, ok := cur.Underlying().(*types.Struct)
			if !ok {
				fail("fieldaddr: %s is not a struct", cur)
			}
			found := false
			for i := 0; i < st.NumFields(); i++ {
				if st.Field(i).Name() == fname {
					l.Path = append(l.Path, PathStep{Field: i, Ty: cur})
					cur = st.Field(i).Type()
					found = true
					break
				}
			}
			if !found {
				fail("no field %s", fname)
			}
		}
		return env.addrOf(Val{Ty: types.NewPointer(cur), Loc: l})
	case "iface":
		// iface(x, "*ssa.BinOp"): x converted to an interface value (what a Go conversion of x produces)
		v := arg(0)
		tn, ok := n.Args[1].(*EStr)
		if !ok {
			fail("iface(x, \"type\") expected")
		}
		ty := env.e.W.ResolveType(tn.V, env.pkg)
		if ty == nil {
			fail("unknown type %s", tn.V)
		}
		tid := env.e.W.TypeID(ty)
		return Val{T: env.e.W.UF(fmt.Sprintf("box.%d", tid), []string{s.SortOf(ty)}, "Int", v.T), Ty: tInt}
	case "fieldsReset":
		// fieldsReset(p, "A,B"): every field of *p other than the listed ones holds its reset value: maps are empty
		// (nil or not), numbers 0, booleans false, strings empty, pointers/slices/interfaces nil.  The field list is read from
		// go/types on every run, so a field added later without a reset fails this clause.
		v := arg(0)
		ex := map[string]bool{}
		if len(n.Args) > 1 {
			if es, ok := n.Args[1].(*EStr); ok {
				for _, f := range strings.Split(es.V, ",") {
					ex[strings.TrimSpace(f)] = true
				}
			}
		}
		if _, ok := v.Ty.Underlying().(*types.Pointer); ok {
			v = env.deref(v)
		}
		st, ok := v.Ty.Underlying().(*types.Struct)
		if !ok {
			fail("fieldsReset of non-struct")
		}
		var cs []string
		for i := 0; i < st.NumFields(); i++ {
			f := st.Field(i)
			if ex[f.Name()] {
				continue
			}
			ft := s.GetField(v.Ty, v.T, i)
			switch u := f.Type().Underlying().(type) {
			case *types.Map:
				q := fmt.Sprintf("q.k!%d", env.e.nextQ())
				dom := sx("select", env.e.heapIn(env.st, s.MapDom(u.Key())), ft)
				cs = append(cs, fmt.Sprintf("(forall ((%s %s)) (not (select %s %s)))", q, s.SortOf(u.Key()), dom, q))
			case *types.Slice:
				cs = append(cs, sx("=", sx("sref", ft), "0"))
			case *types.Struct:
				// nested value (e.g. strings.Builder): not constrained here
			default:
				cs = append(cs, sx("=", ft, s.Zero(f.Type())))
			}
		}
		return Val{T: and(cs...), Ty: tBool}
	case "typed":
		// typed(x, "T"): true, but only meaningful where x has exactly the Go type T (otherwise the clause is out of scope)
		v := arg(0)
		tn, ok := n.Args[1].(*EStr)
		ty := (types.Type)(nil)
		if ok {
			ty = env.e.W.ResolveType(tn.V, env.pkg)
		}
		if ty == nil || v.Ty == nil || !types.Identical(v.Ty, ty) {
			fail("typed: value does not have type %v here", n.Args[1])
		}
		return Val{T: "true", Ty: tBool}
	case "bitand":
		a0, a1 := arg(0), arg(1)
		if !strings.Contains(a0.T, "q.") && !strings.Contains(a0.T, "!q") {
			env.e.maskFacts(a0.T, a1.T)
		}
		return Val{T: env.e.W.UF("bits.and", []string{"Int", "Int"}, "Int", a0.T, a1.T), Ty: tInt}
	case "hasType", "dyn":
		// hasType(x, "*ssa.BinOp"): the dynamic type of interface value x; dyn(x, "*ssa.BinOp"): its payload
		v := arg(0)
		tn, ok := n.Args[1].(*EStr)
		if !ok {
			fail("%s(x, \"type\") expected", n.Fun)
		}
		ty := env.e.W.ResolveType(tn.V, env.pkg)
		if ty == nil {
			fail("unknown type %s", tn.V)
		}
		tid := env.e.W.TypeID(ty)
		if n.Fun == "hasType" {
			return Val{T: and(not(sx("=", v.T, "0")), sx("=", sx("itag", v.T), fmt.Sprint(tid))), Ty: tBool}
		}
		return Val{T: env.e.W.UF(fmt.Sprintf("unbox.%d", tid), []string{"Int"}, s.SortOf(ty), v.T), Ty: ty}
	case "purecall":
		// purecall("invoke:io/fs.DirEntry.IsDir", d): the uninterpreted function a pure library call is modelled by
		nm, ok := n.Args[0].(*EStr)
		if !ok || !env.e.W.IsPure(nm.V) {
			fail("purecall needs the name of a function listed in lib/pure.txt")
		}
		var sorts, ts []string
		for i := 1; i < len(n.Args); i++ {
			a := arg(i)
			sorts = append(sorts, env.sortOf(a))
			ts = append(ts, a.T)
		}
		rs, ok := env.e.W.pureResultSort[nm.V]
		if !ok {
			fail("purecall %s: result sort unknown (the function is not called in the code under contract)", nm.V)
		}
		rty := env.e.W.pureResultType[nm.V]
		if rty == nil {
			rty = goTypeOfSort(rs)
		}
		return Val{T: env.e.W.UF("pure."+mangle(nm.V), sorts, rs, ts...), Sort: rs, Ty: rty}
	case "errmsg":
		return Val{T: env.e.W.UF("errmsg", []string{"Int"}, "String", arg(0).T), Ty: tString}
	case "isNotExist":
		return Val{T: env.e.W.UF("pure.os.IsNotExist", []string{"Int"}, "Bool", arg(0).T), Ty: tBool}
	case "dirOf":
		return Val{T: env.e.W.UF("path.dir", []string{"String"}, "String", arg(0).T), Ty: tString}
	case "baseOf":
		return Val{T: env.e.W.UF("path.base", []string{"String"}, "String", arg(0).T), Ty: tString}
	case "store":
		a, i, v := arg(0), arg(1), arg(2)
		r := a
		r.T = sx("store", a.T, i.T, v.T)
		return r
	case "sref":
		return Val{T: sx("sref", arg(0).T), Ty: tInt}
	case "fresh":
		// fresh(x): reference allocated after function entry
		v := arg(0)
		t := v.T
		if env.sortOf(v) == "Slice" {
			t = sx("sref", v.T)
		}
		old := env.old
		if old == nil {
			old = env.e.initState
		}
		return Val{T: sx(">", t, env.e.heapIn(old, AllocVar)), Ty: tBool}
	case "allocated":
		// allocated(x): the reference held in x denotes an object that exists in the state the clause speaks about
		v := arg(0)
		t := v.T
		if env.sortOf(v) == "Slice" {
			t = sx("sref", v.T)
		}
		return Val{T: and(sx("<=", "0", t), sx("<=", t, env.e.heapIn(env.st, AllocVar))), Ty: tBool}
	case "freshSincePre":
		v := arg(0)
		t := v.T
		if env.sortOf(v) == "Slice" {
			t = sx("sref", v.T)
		}
		st := env.pre
		if st == nil {
			st = env.e.initState
		}
		return Val{T: sx(">", t, env.e.heapIn(st, AllocVar)), Ty: tBool}
	case "seqeq":
		a, b := arg(0), arg(1)
		st, ok := a.Ty.Underlying().(*types.Slice)
		if !ok {
			fail("seqeq needs slices")
		}
		h := env.e.heapIn(env.st, s.ArrHeap(st.Elem()))
		q := fmt.Sprintf("q.i!%d", env.e.nextQ())
		return Val{T: and(sx("=", sx("slen", a.T), sx("slen", b.T)),
			fmt.Sprintf("(forall ((%s Int)) (=> (and (<= 0 %s) (< %s (slen %s))) (= (select (select %s (sref %s)) %s) (select (select %s (sref %s)) %s))))", q, q, q, a.T, h, a.T, q, h, b.T, q)), Ty: tBool}
	}
	if p, ok := env.e.W.Contracts.Preds[n.Fun]; ok {
		var args []Val
		for i := range n.Args {
			args = append(args, arg(i))
		}
		return env.expandPred(p, args)
	}
	if v, ok := env.e.W.SpecFunc(env, n.Fun, n.Args); ok {
		return v
	}
	fail("unknown spec function %q", n.Fun)
	return Val{}
}

func (env *Env) toFloat(v Val) Val {
	if env.sortOf(v) == "Int" {
		return Val{T: sx("f.ofint", v.T), Ty: tFloat}
	}
	return v
}

// addrOf gives a derived address (field or element location) an integer identity so that it can be compared.
func (env *Env) addrOf(v Val) Val {
	if v.T != "" || v.Loc == nil {
		return v
	}
	l := v.Loc
	key := "addr"
	args := []string{l.Ref}
	sorts := []string{"Int"}
	if l.Elem {
		key += ".elem"
		args = append(args, l.Idx)
		sorts = append(sorts, "Int")
	}
	for _, s := range l.Path {
		if s.Field >= 0 {
			key += fmt.Sprintf(".f%d", s.Field)
		} else {
			key += ".ix"
			args = append(args, s.Idx)
			sorts = append(sorts, "Int")
		}
	}
	t := env.e.W.UF(key+"."+sortID(env.e.sorts().SortOf(l.RootTy)), sorts, "Int", args...)
	env.e.emit(fmt.Sprintf("(assert (not (= %s 0)))", t))
	// two fields of non-zero size of one object have different addresses
	if len(l.Path) > 0 && l.Path[0].Field >= 0 && !l.Elem && !strings.Contains(t, "q.") && !strings.Contains(t, "!q") {
		if st, ok := l.RootTy.Underlying().(*types.Struct); ok && l.Path[0].Field < st.NumFields() {
			sz := types.SizesFor("gc", "amd64")
			if sz.Sizeof(st.Field(l.Path[0].Field).Type()) > 0 {
				rs := sortID(env.e.sorts().SortOf(l.RootTy))
				for _, o := range env.e.addrTerms {
					if o.rootSort == rs && o.field != l.Path[0].Field && o.term != t {
						env.e.emit(fmt.Sprintf("(assert (=> (= %s %s) (not (= %s %s))))", o.ref, l.Ref, o.term, t))
					}
				}
				env.e.addrTerms = append(env.e.addrTerms, addrTerm{t, rs, l.Ref, l.Path[0].Field})
			}
		}
	}
	v.T = t
	return v
}

// mapTypeFact: a non-nil value of a Go map type refers to a map object of that type (so maps of different types are
// different objects).  True of every well-typed state; asserted wherever a contract reads a map-typed field.
func (env *Env) mapTypeFact(v Val) {
	if v.Ty == nil || strings.Contains(v.T, "q.") || strings.Contains(v.T, "!q") {
		return // mentions a bound variable: cannot be asserted at top level
	}
	if mt, ok := v.Ty.Underlying().(*types.Map); ok {
		env.e.emit(fmt.Sprintf("(assert (=> (not (= %s 0)) (= %s %d)))", v.T, env.e.W.UF("mtype", []string{"Int"}, "Int", v.T), env.e.W.TypeID(mt)))
	}
}
