package govc

import (
	"fmt"
	"go/types"
	"sort"
	"strings"
)

// Sorts maps Go types to SMT sorts and records the datatype declarations and heap
// variables a query needs.
type Sorts struct {
	structDecl  map[string]string // sort name -> declare-datatypes text
	structOrder []string
	structTypes map[string]*types.Struct
	structNames map[*types.Struct]string
	anon        int
}

func NewSorts() *Sorts {
	return &Sorts{structDecl: map[string]string{}, structTypes: map[string]*types.Struct{}, structNames: map[*types.Struct]string{}}
}

func isFloat(t types.Type) bool {
	b, ok := t.Underlying().(*types.Basic)
	return ok && b.Info()&types.IsFloat != 0
}
func isInteger(t types.Type) bool {
	b, ok := t.Underlying().(*types.Basic)
	return ok && b.Info()&types.IsInteger != 0
}
func isString(t types.Type) bool {
	b, ok := t.Underlying().(*types.Basic)
	return ok && b.Info()&types.IsString != 0
}
func isBool(t types.Type) bool {
	b, ok := t.Underlying().(*types.Basic)
	return ok && b.Info()&types.IsBoolean != 0
}

// SortOf returns the SMT sort of a Go type.
func (s *Sorts) SortOf(t types.Type) string {
	switch u := t.Underlying().(type) {
	case *types.Basic:
		switch {
		case u.Info()&types.IsBoolean != 0:
			return "Bool"
		case u.Info()&types.IsInteger != 0:
			return "Int"
		case u.Info()&types.IsFloat != 0:
			return "Flt"
		case u.Info()&types.IsString != 0:
			return "String"
		case u.Kind() == types.UnsafePointer, u.Kind() == types.UntypedNil:
			return "Int"
		}
		return "Int"
	case *types.Pointer, *types.Map, *types.Chan, *types.Signature, *types.Interface:
		return "Int"
	case *types.Slice:
		return "Slice"
	case *types.Array:
		return "(Array Int " + s.SortOf(u.Elem()) + ")"
	case *types.Struct:
		return s.structSort(t, u)
	case *types.Tuple:
		return "Int"
	case *types.TypeParam:
		return "Int"
	}
	return "Int"
}

func (s *Sorts) structSort(t types.Type, u *types.Struct) string {
	if n, ok := s.structNames[u]; ok {
		return n
	}
	var name string
	if nt, ok := t.(*types.Named); ok && nt.Obj() != nil {
		p := ""
		if nt.Obj().Pkg() != nil {
			p = nt.Obj().Pkg().Name() + "."
		}
		name = "S." + mangle(p+nt.Obj().Name())
		if nt.TypeArgs() != nil && nt.TypeArgs().Len() > 0 {
			name += fmt.Sprintf("_i%d", s.anon)
			s.anon++
		}
	} else if at, ok := t.(*types.Alias); ok {
		return s.structSort(types.Unalias(at), u)
	} else {
		name = fmt.Sprintf("S.anon%d", s.anon)
		s.anon++
	}
	if prev, dup := s.structTypes[name]; dup && prev != u {
		name = fmt.Sprintf("%s_%d", name, s.anon)
		s.anon++
	}
	s.structNames[u] = name
	s.structTypes[name] = u
	// fields first (dependencies are declared before use)
	var fs []string
	for i := 0; i < u.NumFields(); i++ {
		fs = append(fs, fmt.Sprintf("(%s %s)", s.FieldSel(name, u, i), s.SortOf(u.Field(i).Type())))
	}
	if len(fs) == 0 {
		fs = append(fs, fmt.Sprintf("(%s.__unit Int)", name))
	}
	s.structDecl[name] = fmt.Sprintf("(declare-datatypes ((%s 0)) (((mk.%s %s))))", name, name, strings.Join(fs, " "))
	s.structOrder = append(s.structOrder, name)
	return name
}

func (s *Sorts) FieldSel(sortName string, u *types.Struct, i int) string {
	return fmt.Sprintf("%s.%s", sortName, mangle(u.Field(i).Name()))
}

// Decls returns all datatype declarations in dependency order.
func (s *Sorts) Decls() string {
	var b strings.Builder
	for _, n := range s.structOrder {
		b.WriteString(s.structDecl[n])
		b.WriteByte('\n')
	}
	return b.String()
}

// Zero returns the zero value of a Go type as an SMT term.
func (s *Sorts) Zero(t types.Type) string {
	switch u := t.Underlying().(type) {
	case *types.Basic:
		switch {
		case u.Info()&types.IsBoolean != 0:
			return "false"
		case u.Info()&types.IsInteger != 0:
			return "0"
		case u.Info()&types.IsFloat != 0:
			return "(fin 0.0)"
		case u.Info()&types.IsString != 0:
			return `""`
		}
		return "0"
	case *types.Slice:
		return "(mkslice 0 0)"
	case *types.Array:
		return fmt.Sprintf("((as const %s) %s)", s.SortOf(t), s.Zero(u.Elem()))
	case *types.Struct:
		name := s.SortOf(t)
		if u.NumFields() == 0 {
			return fmt.Sprintf("(mk.%s 0)", name)
		}
		var fs []string
		for i := 0; i < u.NumFields(); i++ {
			fs = append(fs, s.Zero(u.Field(i).Type()))
		}
		return fmt.Sprintf("(mk.%s %s)", name, strings.Join(fs, " "))
	}
	return "0"
}

// UpdateField rebuilds a struct value with field i replaced.
func (s *Sorts) UpdateField(t types.Type, val string, i int, nv string) string {
	u := t.Underlying().(*types.Struct)
	name := s.SortOf(t)
	var fs []string
	for j := 0; j < u.NumFields(); j++ {
		if j == i {
			fs = append(fs, nv)
		} else {
			fs = append(fs, sx(s.FieldSel(name, u, j), val))
		}
	}
	return fmt.Sprintf("(mk.%s %s)", name, strings.Join(fs, " "))
}

func (s *Sorts) GetField(t types.Type, val string, i int) string {
	u := t.Underlying().(*types.Struct)
	return sx(s.FieldSel(s.SortOf(t), u, i), val)
}

func sortID(sort string) string {
	r := strings.NewReplacer("(", "", ")", "", " ", "_")
	return r.Replace(sort)
}

// Heap variable kinds.  Each heap variable is an SMT array indexed by reference.
type HeapVar struct {
	Name string // base name, e.g. H.S.detection.Signature
	Sort string
}

func (s *Sorts) StructHeap(t types.Type) HeapVar {
	n := s.SortOf(t)
	return HeapVar{"H." + n, "(Array Int " + n + ")"}
}
func (s *Sorts) CellHeap(t types.Type) HeapVar {
	if _, ok := t.Underlying().(*types.Struct); ok {
		return s.StructHeap(t)
	}
	n := s.SortOf(t)
	return HeapVar{"C." + sortID(n), "(Array Int " + n + ")"}
}
// ArrHeap: backing arrays are grouped by element sort; arrays of pointers and interfaces are grouped by the Go
// element type, so that arrays owned by immutable libraries (go/ssa, go/types) have heaps of their own.
// ArrHeapOwned: the backing arrays of slices held in fields of objects owned by go/ssa, go/types, ... (b.Succs,
// fn.Blocks, phi.Edges): never written by code under contract (A-imm), so this heap has one version only. Which heap a
// slice access uses is decided by where the slice expression comes from (a field of such an object), in code and in
// contracts alike.
func (s *Sorts) ArrHeapOwned(elem types.Type) HeapVar {
	h := s.ArrHeap(elem)
	return HeapVar{"AI." + strings.TrimPrefix(h.Name, "A."), h.Sort}
}

func (s *Sorts) ArrHeap(elem types.Type) HeapVar {
	n := s.SortOf(elem)
	name := "A." + sortID(n)
	switch elem.Underlying().(type) {
	case *types.Pointer, *types.Interface:
		ts := types.TypeString(elem, func(p *types.Package) string { return p.Name() })
		if strings.Contains(ts, "ssa.") || strings.Contains(ts, "types.") || strings.Contains(ts, "token.") || strings.Contains(ts, "ast.") {
			name = "A.ref." + mangle(ts)
		}
	}
	return HeapVar{name, "(Array Int (Array Int " + n + "))"}
}
func (s *Sorts) MapDom(k types.Type) HeapVar {
	n := s.SortOf(k)
	return HeapVar{"MD." + sortID(n), "(Array Int (Array " + n + " Bool))"}
}
func (s *Sorts) MapVal(k, v types.Type) HeapVar {
	kn, vn := s.SortOf(k), s.SortOf(v)
	return HeapVar{"MV." + sortID(kn) + "." + sortID(vn), "(Array Int (Array " + kn + " " + vn + "))"}
}

var MapLen = HeapVar{"ML", "(Array Int Int)"}
var AllocVar = HeapVar{"alloc", "Int"}

func sortedKeys[V any](m map[string]V) []string {
	ks := make([]string, 0, len(m))
	for k := range m {
		ks = append(ks, k)
	}
	sort.Strings(ks)
	return ks
}
