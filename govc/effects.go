package govc

import (
	"go/token"
	"go/types"
	"sort"
	"strings"

	"golang.org/x/tools/go/ssa"
)

// Inferred write sets. A module function without a provable frame (declared `noframe`, or without a contract) used
// to make its callers forget the whole escaped heap. Its possible writes are over-approximated here from its body and
// the bodies of the module functions and function literals it can reach through static calls, at the granularity of
// the generator's heap variables (struct heaps per type, cell and array heaps per element sort) and, for maps, of the
// Go map type (map references carry their type as a tag). Anything the walk cannot see through - a library call that
// is not modelled, pure or listed as leaving existing objects alone, a call through an interface or a function value
// - makes the summary "all". The summary is sound under the same library assumptions (A6) as the rest.
type Effects struct {
	All      bool
	Why      string                // first reason for All
	Existing map[string]bool       // heap variables in which an object that existed before the call may be written
	Alloc    map[string]bool       // heap variables in which only objects created by the callee are written
	MapTypes map[string]types.Type // map types whose pre-existing maps may be updated
}

func (w *World) staticHeapOf(addr ssa.Value) string {
	s := w.Sorts
	for {
		switch a := addr.(type) {
		case *ssa.FieldAddr:
			addr = a.X
			continue
		case *ssa.IndexAddr:
			if st, ok := a.X.Type().Underlying().(*types.Slice); ok {
				return s.ArrHeap(st.Elem()).Name
			}
			addr = a.X
			continue
		}
		break
	}
	if pt, ok := addr.Type().Underlying().(*types.Pointer); ok {
		return s.CellHeap(pt.Elem()).Name
	}
	return ""
}

func inModule(f *ssa.Function) bool {
	pk := f.Pkg
	if pk == nil && f.Parent() != nil {
		pk = f.Parent().Pkg
	}
	return pk != nil && strings.HasPrefix(pk.Pkg.Path(), ModulePath)
}

// EffectsOf computes (and memoises) the write summary of a module function.
func (w *World) EffectsOf(f *ssa.Function) *Effects {
	if w.effects == nil {
		w.effects = map[*ssa.Function]*Effects{}
	}
	if e, ok := w.effects[f]; ok {
		return e
	}
	eff := &Effects{Existing: map[string]bool{}, Alloc: map[string]bool{}, MapTypes: map[string]types.Type{}}
	w.effects[f] = eff
	if f.Blocks == nil || !inModule(f) {
		eff.All, eff.Why = true, "no body: "+f.String()
		return eff
	}
	s := w.Sorts
	all := func(why string) {
		if !eff.All {
			eff.All, eff.Why = true, why
		}
	}
	seen := map[*ssa.Function]bool{}
	var walk func(g *ssa.Function)
	localRoot := func(addr ssa.Value, g *ssa.Function) bool {
		for {
			switch a := addr.(type) {
			case *ssa.FieldAddr:
				addr = a.X
				continue
			case *ssa.IndexAddr:
				if _, isSl := a.X.Type().Underlying().(*types.Slice); isSl {
					// element of a slice: the backing array is the callee's own only if the slice was made here
					switch a.X.(type) {
					case *ssa.MakeSlice:
						return true
					}
					return false
				}
				addr = a.X
				continue
			case *ssa.Alloc:
				return true
			}
			return false
		}
	}
	mapWrite := func(m ssa.Value) {
		mt, ok := m.Type().Underlying().(*types.Map)
		if !ok {
			return
		}
		hs := []string{s.MapDom(mt.Key()).Name, s.MapVal(mt.Key(), mt.Elem()).Name, MapLen.Name}
		if _, direct := m.(*ssa.MakeMap); direct {
			for _, h := range hs {
				eff.Alloc[h] = true
			}
			return
		}
		for _, h := range hs {
			eff.Existing[h] = true
		}
		eff.MapTypes[types.TypeString(mt, nil)] = mt
	}
	modifiesOf := func(con *FuncContract, sf *ssa.Function) {
		for _, m := range con.Modifies {
			root := m.Expr
			for {
				if fe, ok := root.(*EField); ok {
					root = fe.X
					continue
				}
				if ue, ok := root.(*EUnary); ok && ue.Op == "*" {
					root = ue.X
					continue
				}
				break
			}
			id, ok := root.(*EIdent)
			found := false
			if ok {
				for _, p := range sf.Params {
					if p.Name() != id.Name {
						continue
					}
					found = true
					switch u := p.Type().Underlying().(type) {
					case *types.Pointer:
						eff.Existing[s.CellHeap(u.Elem()).Name] = true
						// fields that are maps or slices of the pointee may be what the clause names: be generous
						if st, isSt := u.Elem().Underlying().(*types.Struct); isSt && root != m.Expr {
							for k := 0; k < st.NumFields(); k++ {
								switch ft := st.Field(k).Type().Underlying().(type) {
								case *types.Map:
									eff.Existing[s.MapDom(ft.Key()).Name] = true
									eff.Existing[s.MapVal(ft.Key(), ft.Elem()).Name] = true
									eff.Existing[MapLen.Name] = true
									eff.MapTypes[types.TypeString(ft, nil)] = ft
								case *types.Slice:
									eff.Existing[s.ArrHeap(ft.Elem()).Name] = true
								}
							}
						}
					case *types.Map:
						eff.Existing[s.MapDom(u.Key()).Name] = true
						eff.Existing[s.MapVal(u.Key(), u.Elem()).Name] = true
						eff.Existing[MapLen.Name] = true
						eff.MapTypes[types.TypeString(u, nil)] = u
					case *types.Slice:
						eff.Existing[s.ArrHeap(u.Elem()).Name] = true
					default:
						all("modifies clause of " + sf.String())
					}
				}
			}
			if !found {
				all("modifies clause of " + sf.String())
			}
		}
		// what the callee allocates is unknown from the contract: results may be fresh objects of any heap; they are
		// above the caller's allocation bound, so existing objects are unaffected
	}
	// implementations of a module interface method (closed world: the module's own named types)
	implementations := func(iface *types.Interface, method string) []*ssa.Function {
		var out []*ssa.Function
		for _, pkg := range w.Prog.AllPackages() {
			if pkg.Pkg == nil || !strings.HasPrefix(pkg.Pkg.Path(), ModulePath) {
				continue
			}
			for _, mem := range pkg.Members {
				tm, ok := mem.(*ssa.Type)
				if !ok {
					continue
				}
				for _, t := range []types.Type{tm.Type(), types.NewPointer(tm.Type())} {
					if _, isIface := t.Underlying().(*types.Interface); isIface {
						continue
					}
					if !types.Implements(t, iface) {
						continue
					}
					sel := w.Prog.MethodSets.MethodSet(t).Lookup(pkg.Pkg, method)
					if sel == nil {
						sel = w.Prog.MethodSets.MethodSet(t).Lookup(nil, method)
					}
					if sel != nil {
						if fn := w.Prog.MethodValue(sel); fn != nil {
							out = append(out, fn)
						}
					}
				}
			}
		}
		return out
	}
	walk = func(g *ssa.Function) {
		if g == nil || seen[g] || eff.All {
			return
		}
		seen[g] = true
		if g.Blocks == nil || !inModule(g) {
			all("call of " + g.String())
			return
		}
		for _, b := range g.Blocks {
			for _, in := range b.Instrs {
				if _, isDbg := in.(*ssa.DebugRef); isDbg {
					continue
				}
				for _, op := range in.Operands(nil) {
					if op != nil && *op != nil {
						if fv, ok := (*op).(*ssa.Function); ok {
							if ci, isCall := in.(ssa.CallInstruction); !isCall || ci.Common().Value != fv {
								walk(fv) // a function used as a value may be called by whoever receives it
							}
						}
					}
				}
				switch i := in.(type) {
				case *ssa.Store:
					h := w.staticHeapOf(i.Addr)
					if h == "" {
						all("store through an untyped address in " + g.String())
						continue
					}
					if localRoot(i.Addr, g) {
						eff.Alloc[h] = true
					} else {
						eff.Existing[h] = true
					}
				case *ssa.Alloc:
					eff.Alloc[s.CellHeap(i.Type().Underlying().(*types.Pointer).Elem()).Name] = true
				case *ssa.MakeSlice:
					eff.Alloc[s.ArrHeap(i.Type().Underlying().(*types.Slice).Elem()).Name] = true
				case *ssa.Slice:
					if st, ok := i.Type().Underlying().(*types.Slice); ok {
						eff.Alloc[s.ArrHeap(st.Elem()).Name] = true
					}
				case *ssa.Convert:
					if st, ok := i.Type().Underlying().(*types.Slice); ok {
						eff.Alloc[s.ArrHeap(st.Elem()).Name] = true
					}
				case *ssa.MakeMap:
					mt := i.Type().Underlying().(*types.Map)
					eff.Alloc[s.MapDom(mt.Key()).Name] = true
					eff.Alloc[s.MapVal(mt.Key(), mt.Elem()).Name] = true
					eff.Alloc[MapLen.Name] = true
				case *ssa.MapUpdate:
					mapWrite(i.Map)
				case *ssa.MakeClosure:
					if lf, ok := i.Fn.(*ssa.Function); ok {
						walk(lf)
					}
				case *ssa.Send, *ssa.Select:
					all("channel operation in " + g.String())
				case *ssa.UnOp:
					if i.Op == token.ARROW {
						all("channel receive in " + g.String())
					}
				case ssa.CallInstruction:
					c := i.Common()
					if bi, ok := c.Value.(*ssa.Builtin); ok {
						switch bi.Name() {
						case "append":
							if st, ok := c.Args[0].Type().Underlying().(*types.Slice); ok {
								eff.Alloc[s.ArrHeap(st.Elem()).Name] = true
							}
						case "delete", "clear":
							if _, isMap := c.Args[0].Type().Underlying().(*types.Map); isMap {
								mapWrite(c.Args[0])
							} else if st, ok := c.Args[0].Type().Underlying().(*types.Slice); ok {
								eff.Existing[s.ArrHeap(st.Elem()).Name] = true
							}
						case "copy":
							if st, ok := c.Args[0].Type().Underlying().(*types.Slice); ok {
								eff.Existing[s.ArrHeap(st.Elem()).Name] = true
							}
						case "recover":
							all("recover in " + g.String())
						}
						continue
					}
					if c.IsInvoke() {
						key := "invoke:" + types.TypeString(c.Value.Type(), nil) + "." + c.Method.Name()
						if w.NoHeapEffect(key) || (libraryOwnedType(c.Value.Type()) && neutralArgs(w, c.Args, walk)) {
							continue
						}
						// an interface declared in the module: its implementations inside the module are walked
						if nt, ok := c.Value.Type().(*types.Named); ok && nt.Obj().Pkg() != nil && strings.HasPrefix(nt.Obj().Pkg().Path(), ModulePath) {
							if it, ok := nt.Underlying().(*types.Interface); ok {
								impls := implementations(it, c.Method.Name())
								if len(impls) > 0 {
									for _, f2 := range impls {
										walk(f2)
									}
									continue
								}
							}
						}
						all(key)
						continue
					}
					sf := c.StaticCallee()
					if sf == nil {
						if mc, ok := c.Value.(*ssa.MakeClosure); ok {
							if lf, ok := mc.Fn.(*ssa.Function); ok {
								walk(lf)
								continue
							}
						}
						// a function value received as a parameter (or captured) by a function that is itself reached only
						// from inside the walked region is one of the literals and functions created or named there -
						// all of which are walked
						switch c.Value.(type) {
						case *ssa.Parameter, *ssa.FreeVar:
							if g != f {
								continue
							}
						}
						all("call through a function value in " + g.String())
						continue
					}
					name := calleeName(sf)
					if _, ok := libModels[name]; ok {
						continue
					}
					switch name {
					case "fmt.Errorf", "fmt.Sprintf", "path/filepath.Join", "errors.New":
						continue
					case "sort.Strings":
						eff.Existing[s.ArrHeap(types.Typ[types.String]).Name] = true
						continue
					case "sort.Slice", "sort.SliceStable":
						if mi, ok := c.Args[0].(*ssa.MakeInterface); ok {
							if st, ok := mi.X.Type().Underlying().(*types.Slice); ok {
								eff.Existing[s.ArrHeap(st.Elem()).Name] = true
								continue
							}
						}
						all(name + " on an untyped slice")
						continue
					}
					if w.IsPure(name) || w.NoHeapEffect(name) {
						continue
					}
					if !inModule(sf) && neutralArgs(w, c.Args, walk) {
						// a library function that is handed nothing created by the module (numbers, strings, objects of
						// go/ssa, go/types, ..., function literals - which are walked) cannot reach module objects
						continue
					}
					if con := w.ContractFor(sf); con != nil && (con.Trusted || !con.NoFrame) {
						// a trusted or framed contract stands for the body: its modifies clauses name parameters
						modifiesOf(con, sf)
						continue
					}
					if inModule(sf) {
						walk(sf)
						continue
					}
					all(name)
				}
			}
		}
	}
	walk(f)
	return eff
}

// libraryOwnedType: a type whose values are created and owned by go/ssa, go/types, go/token, go/constant, go/ast
// (or the predeclared error): methods on them do not touch module objects.
func libraryOwnedType(t types.Type) bool {
	switch u := t.(type) {
	case *types.Pointer:
		return libraryOwnedType(u.Elem())
	case *types.Slice:
		return libraryOwnedType(u.Elem())
	case *types.Named:
		if u.Obj().Pkg() == nil {
			return u.Obj().Name() == "error"
		}
		switch u.Obj().Pkg().Path() {
		case "golang.org/x/tools/go/ssa", "go/types", "go/token", "go/constant", "go/ast", "reflect", "math/big", "regexp":
			return true
		}
	}
	return false
}

// neutralArgs: nothing the module created (and could observe a change of) is handed over: numbers, strings, booleans,
// library-owned objects; function literals are walked as if called.
func neutralArgs(w *World, args []ssa.Value, walk func(*ssa.Function)) bool {
	for _, a := range args {
		t := a.Type()
		for {
			if ct, ok := a.(*ssa.ChangeType); ok {
				a = ct.X
				continue
			}
			break
		}
		if mc, ok := a.(*ssa.MakeClosure); ok {
			if lf, ok := mc.Fn.(*ssa.Function); ok {
				walk(lf)
				continue
			}
		}
		if f, ok := a.(*ssa.Function); ok {
			walk(f)
			continue
		}
		if c, ok := a.(*ssa.Const); ok && c.Value == nil {
			continue // nil
		}
		switch u := t.Underlying().(type) {
		case *types.Basic:
			continue
		case *types.Signature:
			return false
		case *types.Interface:
			if libraryOwnedType(t) {
				continue
			}
			// a value boxed for the call: what is inside counts
			if mi, ok := a.(*ssa.MakeInterface); ok {
				if _, basic := mi.X.Type().Underlying().(*types.Basic); basic || libraryOwnedType(mi.X.Type()) {
					continue
				}
				// a module type handed over as an interface (sort.Sort(byIndex(xs))): the library can only call the
				// interface's methods on it - those are walked; the value itself is not written otherwise
				if it := u; it.NumMethods() > 0 {
					okAll := true
					ms := w.Prog.MethodSets.MethodSet(mi.X.Type())
					for k := 0; k < it.NumMethods(); k++ {
						m := it.Method(k)
						sel := ms.Lookup(m.Pkg(), m.Name())
						if sel == nil {
							okAll = false
							break
						}
						if fn := w.Prog.MethodValue(sel); fn != nil {
							walk(fn)
						} else {
							okAll = false
						}
					}
					if okAll {
						continue
					}
				}
			}
			return false
		default:
			_ = u
			if libraryOwnedType(t) {
				continue
			}
			return false
		}
	}
	return true
}

func (eff *Effects) String() string {
	if eff.All {
		return "all (" + eff.Why + ")"
	}
	var ks []string
	for k := range eff.Existing {
		ks = append(ks, k)
	}
	sort.Strings(ks)
	var ms []string
	for k := range eff.MapTypes {
		ms = append(ms, k)
	}
	sort.Strings(ms)
	return "writes " + strings.Join(ks, " ") + "; map types " + strings.Join(ms, " ")
}

// havocEffects applies an inferred write summary at a call: heaps the callee cannot write keep their version; heaps
// in which it only creates objects keep every object that existed; heaps in which it may write existing objects are
// havocked (locals the callee cannot reach aside) - for map heaps only the maps of the written map types.
func (e *FnEnc) havocEffects(eff *Effects, why string, args ...Val) {
	if eff.All {
		e.note("havoc (inferred write set of " + why + " is unknown: " + eff.Why + ")")
		e.havocAll(why, args...)
		return
	}
	e.note("inferred write set of " + why + ": " + eff.String())
	passed := map[string]bool{}
	for _, a := range args {
		if a.T != "" {
			passed[a.T] = true
		}
	}
	preAlloc := e.alloc()
	for _, name := range sortedKeys(e.heapVars) {
		hv := e.heapVars[name]
		if name == AllocVar.Name || strings.HasPrefix(name, "VIS.") || strings.HasPrefix(name, "POS.") || strings.HasPrefix(name, "GH.") {
			continue
		}
		ex, al := eff.Existing[name], eff.Alloc[name]
		if !ex && !al {
			continue
		}
		if immutableHeap(name) {
			continue
		}
		old := e.heap(hv)
		nw := e.havocHeap(hv)
		if !ex {
			e.assume(e.frameFact(nw, old, preAlloc, nil))
			continue
		}
		for _, l := range e.locals {
			if passed[l.ref] {
				continue
			}
			if l.heap == name && !l.esc.escapedAt(e.curBlock, e.curIdx) {
				e.assume(sx("=", sx("select", nw, l.ref), sx("select", old, l.ref)))
			}
		}
		if strings.HasPrefix(name, "MD.") || strings.HasPrefix(name, "MV.") || name == MapLen.Name {
			// maps of other types than the ones the callee updates are unchanged
			q := "r!q" + itoa(e.nextQ())
			conds := []string{sx("<=", q, preAlloc)}
			for _, k := range sortedKeys(eff.MapTypes) {
				conds = append(conds, not(sx("=", e.W.UF("mtype", []string{"Int"}, "Int", q), itoa(e.W.TypeID(eff.MapTypes[k])))))
			}
			e.assume("(forall ((" + q + " Int)) (! (=> " + and(conds...) + " (= (select " + nw + " " + q + ") (select " + old + " " + q + "))) :pattern ((select " + nw + " " + q + "))))")
		}
	}
	oa := e.alloc()
	na := e.declare("alloc", "Int")
	e.cur[AllocVar.Name] = na
	e.assume(sx(">=", na, oa))
}

func itoa(n int) string {
	if n == 0 {
		return "0"
	}
	neg := n < 0
	if neg {
		n = -n
	}
	var b []byte
	for n > 0 {
		b = append([]byte{byte('0' + n%10)}, b...)
		n /= 10
	}
	if neg {
		return "-" + string(b)
	}
	return string(b)
}
