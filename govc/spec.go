package govc

import (
	"fmt"
	"os"
	"strconv"
	"strings"
	"unicode"
)

// ---------------------------------------------------------------- AST

type Expr interface{}

type (
	EIdent  struct{ Name string }
	EInt    struct{ V int64 }
	EFloat  struct{ V string }
	EStr    struct{ V string }
	EBool   struct{ V bool }
	ENil    struct{}
	EUnary  struct {
		Op string
		X  Expr
	}
	EBinary struct {
		Op   string
		X, Y Expr
	}
	ECall struct {
		Fun  string
		Args []Expr
	}
	EField struct {
		X    Expr
		Name string
	}
	EIndex struct {
		X, I Expr
	}
	EOld   struct{ X Expr }
	EQuant struct {
		Forall   bool
		Vars     []QVar
		Body     Expr
		Triggers []Expr
	}
)

type QVar struct {
	Name   string
	Lo, Hi Expr   // range form
	Keys   Expr   // keys(m) form
	Type   string // typed form
}

// ---------------------------------------------------------------- lexer

type tok struct {
	k string // id int float str op eof
	s string
}

func lex(src string) ([]tok, error) {
	var ts []tok
	i := 0
	for i < len(src) {
		c := src[i]
		switch {
		case c == ' ' || c == '\t' || c == '\n' || c == '\r':
			i++
		case unicode.IsLetter(rune(c)) || c == '_' || c == '#' || c == '%':
			j := i + 1
			for j < len(src) && (unicode.IsLetter(rune(src[j])) || unicode.IsDigit(rune(src[j])) || src[j] == '_' || src[j] == '$') {
				j++
			}
			ts = append(ts, tok{"id", src[i:j]})
			i = j
		case unicode.IsDigit(rune(c)):
			j := i
			isF := false
			for j < len(src) && (unicode.IsDigit(rune(src[j])) || (src[j] == '.' && j+1 < len(src) && unicode.IsDigit(rune(src[j+1])))) {
				if src[j] == '.' {
					isF = true
				}
				j++
			}
			if isF {
				ts = append(ts, tok{"float", src[i:j]})
			} else {
				ts = append(ts, tok{"int", src[i:j]})
			}
			i = j
		case c == '"':
			j := i + 1
			for j < len(src) && src[j] != '"' {
				if src[j] == '\\' {
					j++
				}
				j++
			}
			if j >= len(src) {
				return nil, fmt.Errorf("unterminated string")
			}
			s, err := strconv.Unquote(src[i : j+1])
			if err != nil {
				return nil, err
			}
			ts = append(ts, tok{"str", s})
			i = j + 1
		default:
			ops := []string{"<==>", "==>", "::", "..", "==", "!=", "<=", ">=", "&&", "||", "+", "-", "*", "/", "%", "<", ">", "!", "(", ")", "[", "]", "{", "}", ".", ",", ":", "?"}
			found := false
			for _, op := range ops {
				if strings.HasPrefix(src[i:], op) {
					ts = append(ts, tok{"op", op})
					i += len(op)
					found = true
					break
				}
			}
			if !found {
				return nil, fmt.Errorf("unexpected character %q in %q", c, src)
			}
		}
	}
	ts = append(ts, tok{"eof", ""})
	return ts, nil
}

// ---------------------------------------------------------------- parser

type parser struct {
	ts []tok
	p  int
}

func ParseExpr(src string) (e Expr, err error) {
	ts, err := lex(src)
	if err != nil {
		return nil, err
	}
	p := &parser{ts: ts}
	defer func() {
		if r := recover(); r != nil {
			err = fmt.Errorf("parse error in %q: %v", src, r)
		}
	}()
	e = p.expr()
	if p.peek().k != "eof" {
		panic(fmt.Sprintf("trailing tokens at %q", p.peek().s))
	}
	return e, nil
}

func (p *parser) peek() tok { return p.ts[p.p] }
func (p *parser) next() tok { t := p.ts[p.p]; p.p++; return t }
func (p *parser) isOp(s string) bool {
	t := p.peek()
	return t.k == "op" && t.s == s
}
func (p *parser) expect(s string) {
	t := p.next()
	if t.s != s {
		panic(fmt.Sprintf("expected %q, got %q", s, t.s))
	}
}

func (p *parser) expr() Expr { return p.iff() }

func (p *parser) iff() Expr {
	x := p.imp()
	for p.isOp("<==>") {
		p.next()
		y := p.imp()
		x = &EBinary{"<==>", x, y}
	}
	return x
}
func (p *parser) imp() Expr {
	x := p.lor()
	if p.isOp("==>") {
		p.next()
		y := p.imp()
		return &EBinary{"==>", x, y}
	}
	return x
}
func (p *parser) lor() Expr {
	x := p.land()
	for p.isOp("||") {
		p.next()
		x = &EBinary{"||", x, p.land()}
	}
	return x
}
func (p *parser) land() Expr {
	x := p.cmp()
	for p.isOp("&&") {
		p.next()
		x = &EBinary{"&&", x, p.cmp()}
	}
	return x
}
func (p *parser) cmp() Expr {
	x := p.add()
	for {
		t := p.peek()
		if t.k == "op" && (t.s == "==" || t.s == "!=" || t.s == "<" || t.s == "<=" || t.s == ">" || t.s == ">=") {
			p.next()
			x = &EBinary{t.s, x, p.add()}
			continue
		}
		if t.k == "id" && t.s == "in" {
			p.next()
			x = &EBinary{"in", x, p.add()}
			continue
		}
		return x
	}
}
func (p *parser) add() Expr {
	x := p.mul()
	for p.isOp("+") || p.isOp("-") {
		op := p.next().s
		x = &EBinary{op, x, p.mul()}
	}
	return x
}
func (p *parser) mul() Expr {
	x := p.unary()
	for p.isOp("*") || p.isOp("/") || p.isOp("%") {
		op := p.next().s
		x = &EBinary{op, x, p.unary()}
	}
	return x
}
func (p *parser) unary() Expr {
	if p.isOp("!") || p.isOp("-") || p.isOp("*") {
		op := p.next().s
		return &EUnary{op, p.unary()}
	}
	return p.postfix()
}
func (p *parser) postfix() Expr {
	x := p.primary()
	for {
		switch {
		case p.isOp("."):
			p.next()
			t := p.next()
			if t.k != "id" && t.k != "int" {
				panic("field name expected")
			}
			x = &EField{x, t.s}
		case p.isOp("["):
			p.next()
			i := p.expr()
			p.expect("]")
			x = &EIndex{x, i}
		default:
			return x
		}
	}
}
func (p *parser) primary() Expr {
	t := p.next()
	switch t.k {
	case "int":
		v, _ := strconv.ParseInt(t.s, 10, 64)
		return &EInt{v}
	case "float":
		return &EFloat{t.s}
	case "str":
		return &EStr{t.s}
	case "op":
		if t.s == "(" {
			e := p.expr()
			p.expect(")")
			return e
		}
		panic(fmt.Sprintf("unexpected %q", t.s))
	case "id":
		switch t.s {
		case "true":
			return &EBool{true}
		case "false":
			return &EBool{false}
		case "nil":
			return &ENil{}
		case "forall", "exists":
			return p.quant(t.s == "forall")
		case "old":
			if p.isOp("(") {
				p.next()
				e := p.expr()
				p.expect(")")
				return &EOld{e}
			}
			return &EIdent{t.s}
		}
		if p.isOp("(") {
			p.next()
			var args []Expr
			for !p.isOp(")") {
				args = append(args, p.expr())
				if p.isOp(",") {
					p.next()
				}
			}
			p.expect(")")
			return &ECall{t.s, args}
		}
		return &EIdent{t.s}
	}
	panic(fmt.Sprintf("unexpected token %q", t.s))
}

// forall i, j in lo..hi :: body | forall k in keys(m) :: body | forall x: T :: body
func (p *parser) quant(forall bool) Expr {
	var names []string
	for {
		t := p.next()
		if t.k != "id" {
			panic("quantified variable expected")
		}
		names = append(names, t.s)
		if p.isOp(",") {
			p.next()
			continue
		}
		break
	}
	q := &EQuant{Forall: forall}
	if p.isOp(":") {
		for {
			p.next() // ':'
			var ty []string
			for !p.isOp("::") && !p.isOp(",") {
				ty = append(ty, p.next().s)
			}
			for _, n := range names {
				q.Vars = append(q.Vars, QVar{Name: n, Type: strings.Join(ty, "")})
			}
			if !p.isOp(",") {
				break
			}
			p.next()
			names = nil
			for {
				t := p.next()
				if t.k != "id" {
					panic("quantified variable expected")
				}
				names = append(names, t.s)
				if p.isOp(",") {
					p.next()
					continue
				}
				break
			}
			if !p.isOp(":") {
				panic("':' expected after quantified variable group")
			}
		}
	} else {
		t := p.next()
		if t.s != "in" {
			panic("'in' or ':' expected in quantifier")
		}
		lo := p.add()
		if p.isOp("..") {
			p.next()
			hi := p.add()
			for _, n := range names {
				q.Vars = append(q.Vars, QVar{Name: n, Lo: lo, Hi: hi})
			}
		} else {
			for _, n := range names {
				q.Vars = append(q.Vars, QVar{Name: n, Keys: lo})
			}
		}
	}
	p.expect("::")
	if p.isOp("{") {
		p.next()
		for !p.isOp("}") {
			q.Triggers = append(q.Triggers, p.expr())
			if p.isOp(",") {
				p.next()
			}
		}
		p.expect("}")
	}
	q.Body = p.expr()
	return q
}

// ---------------------------------------------------------------- contract files

type Clause struct {
	owner *FuncContract
	Pkg  string
	Tags []string
	Expr Expr
	Src  string
	File string
	Line int
}

type Param struct{ Name, Type string }

type Pred struct {
	Pkg    string // package path of the contract file that defines it
	Opaque bool
	Name   string
	Params []Param
	Body   Expr
	Src    string
}

type CallUpdate struct {
	Callee string
	GhostUpdate
}

type StatelessClause struct {
	Clause
	Except map[string]bool
}

type CallAssert struct {
	Callee string
	Clause
	Reach bool // "call F transitively assert e": also at calls to module functions that can reach a call to F
}

// Protect: every read / write of the struct field must satisfy the given condition over the function's ghosts.
// MapWriters: "mapwriters [tags] T.f only F G ..." - in the declaring package, entries of the map held in field f of T
// are stored or deleted by the named functions alone (the functions that maintain what contracts say about the map).
type MapWriters struct {
	Tags        []string
	Type, Field string
	Allowed     []string
	Pkg, Src    string
	File        string
	Line        int
}

type Protect struct {
	Type, Field string // Field: a name, "*" (every field) or "*!A!B" (every field but A and B)
	Read, Write *Clause
	Pkg         string // the package whose contract file declares it
	TypePkg     string // "detection" in detection.Signature: a type of another package, protected inside the functions of Pkg
}

func (p *Protect) matchesField(name string) bool {
	if p.Field == name {
		return true
	}
	if !strings.HasPrefix(p.Field, "*") {
		return false
	}
	for _, ex := range strings.Split(p.Field, "!")[1:] {
		if ex == name {
			return false
		}
	}
	return true
}

type GhostUpdate struct {
	Name string
	Expr Expr
	Src  string
}

type LoopContract struct {
	Ordered       *Clause // the loop iterates in a determined order: it is not a range over a map
	Complete      *Clause // the loop is never left early: every iteration of the range happens (no break, no return from the body)
	ReturnEnsures []Clause // must hold at every return that is dominated by the loop header (not visible to callers)
	Updates    []GhostUpdate
	Invariants []Clause
	Modifies   []Clause
	Decreases  *Clause
}

type FuncContract struct {
	Name     string
	Pkg      string // package path the contract file belongs to
	File     string
	Line     int
	Requires []Clause
	Ensures  []Clause
	Asserts  []Clause // "assert at return" style extras (unused yet)
	Modifies []Clause
	Loops    map[int]*LoopContract
	Trusted  bool // contract assumed, body not verified
	Pure     bool // result is a function of arguments (and read heap)
	Safe     bool // prove absence of run-time panics too
	DetProps      map[string]bool // the properties under which the order discipline of a deterministic function is checked
	Deterministic bool // C10: must not return, store into its results, or encode an unordered collection
	Concurrent bool // this function literal runs concurrently with its siblings: appends to captured variables are unordered
	BagResults []int // results that are declared unordered collections (callers must sort them)
	BagParams []string
	ProtocolOnly []string // properties under which only tagged (protocol) obligations of this function are generated
	Uses     []string // named axiom groups this function's proof may use
	Reveals  []string // opaque predicates whose definition this function's proof may use
	props    map[string]bool
	Stateless *StatelessClause // no package-level state of the module is written (transitively), except the listed globals
	Owned    []string // parameters through which alone their object is reachable (checked: no escape here, owned/local at call sites): unknown calls cannot touch it
	NoFrame  bool // no frame promise: callers havoc everything; no frame obligations
	Decreases *Clause
	Lets     []Param // let name = expr (Type holds the expression source)
	CallUpdates []CallUpdate // call NAME update G = expr
	CallAsserts []CallAssert // call NAME assert [tags] expr
	ReturnEnsures []Clause // return-ensures [tags] expr: at every return where the clause's local names are in scope (at least one)
	UpdateAsserts []CallAssert // mapupdate FIELD assert [tags] expr: before every update of the map held in field FIELD (key, value bound)
	Ghosts   []Param // ghost name type
	Inits    []GhostUpdate
}

type UFunc struct {
	Name   string
	Params []Param
	Result string
}

type ContractSet struct {
	UFuncs map[string]*UFunc
	Axioms []Clause
	Protects []Protect
	MapWriters []MapWriters
	Groups map[string][]string // named clause groups (raw clause lines), expanded by 'include'
	Lemmas []Clause // proved standalone; usable like axioms by functions that 'uses' one of their tags
	Preds map[string]*Pred
	Funcs map[string]*FuncContract // key: pkgpath + "::" + ssa name
	Order []string
}

func NewContractSet() *ContractSet {
	return &ContractSet{Preds: map[string]*Pred{}, Funcs: map[string]*FuncContract{}, UFuncs: map[string]*UFunc{}, Groups: map[string][]string{}}
}

var clauseKeywords = map[string]bool{"pred": true, "func": true, "requires": true, "ensures": true, "loop": true,
	"modifies": true, "ufunc": true, "axiom": true, "lemma": true, "noframe": true, "owned": true, "stateless": true, "opaque": true, "reveal": true, "uses": true, "protect": true, "protocol-only": true, "deterministic": true, "concurrent": true, "bag": true, "group": true, "include": true, "end": true, "trusted": true, "pure": true, "safe": true, "decreases": true, "let": true, "ghost": true, "init": true, "call": true, "mapupdate": true, "return-ensures": true, "package": true, "mapwriters": true}

// ParseContractFile reads the //@ lines of one file.
func (cs *ContractSet) ParseContractFile(path, pkgPath string) error {
	data, err := os.ReadFile(path)
	if err != nil {
		return err
	}
	type line struct {
		n    int
		text string
	}
	var items []line
	for i, raw := range strings.Split(string(data), "\n") {
		t := strings.TrimSpace(raw)
		var body string
		switch {
		case strings.HasPrefix(t, "//@"):
			body = t[3:]
		case strings.HasPrefix(t, "// @"):
			body = t[4:]
		default:
			continue
		}
		if k := strings.Index(body, " //"); k >= 0 && !strings.Contains(body[k:], `"`) {
			body = body[:k]
		}
		b := strings.TrimSpace(body)
		if b == "" {
			continue
		}
		first := strings.Fields(b)[0]
		if !clauseKeywords[first] && len(items) > 0 {
			items[len(items)-1].text += " " + b
			continue
		}
		items = append(items, line{i + 1, b})
	}
	// clause groups: "group NAME" ... "end" define reusable clause lists; "include NAME" expands them in place
	{
		var out []line
		var gname string
		// first pass: collect the groups (a group may be defined after its first use)
		for _, it := range items {
			f := strings.Fields(it.text)
			switch {
			case f[0] == "group" && len(f) == 2:
				gname = f[1]
				cs.Groups[gname] = nil
			case f[0] == "end" && gname != "":
				gname = ""
			case gname != "":
				cs.Groups[gname] = append(cs.Groups[gname], it.text)
			}
		}
		gname = ""
		for _, it := range items {
			f := strings.Fields(it.text)
			switch {
			case f[0] == "group" && len(f) == 2:
				gname = f[1]
			case f[0] == "end" && gname != "":
				gname = ""
			case gname != "":
			case f[0] == "include" && len(f) == 2:
				g, ok := cs.Groups[f[1]]
				if !ok {
					return fmt.Errorf("%s:%d: unknown group %s", path, it.n, f[1])
				}
				for _, t := range g {
					out = append(out, line{it.n, t})
				}
			default:
				out = append(out, it)
			}
		}
		items = out
	}
	var cur *FuncContract
	for _, it := range items {
		fields := strings.Fields(it.text)
		kw := fields[0]
		rest := strings.TrimSpace(it.text[len(kw):])
		mk := func(src string) (Clause, error) {
			c := Clause{File: path, Line: it.n}
			s := strings.TrimSpace(src)
			for strings.HasPrefix(s, "[") {
				k := strings.Index(s, "]")
				if k < 0 {
					return c, fmt.Errorf("%s:%d: bad tag", path, it.n)
				}
				c.Tags = append(c.Tags, strings.TrimSpace(s[1:k]))
				s = strings.TrimSpace(s[k+1:])
			}
			c.Src = s
			e, err := ParseExpr(s)
			if err != nil {
				return c, fmt.Errorf("%s:%d: %v", path, it.n, err)
			}
			c.Expr = e
			return c, nil
		}
		if kw == "opaque" {
			// opaque pred name(...) = body
			if len(fields) < 2 || fields[1] != "pred" {
				return fmt.Errorf("%s:%d: 'opaque pred' expected", path, it.n)
			}
			kw = "opaquepred"
			rest = strings.TrimSpace(rest[len("pred"):])
		}
		switch kw {
		case "package":
			pkgPath = rest
		case "pred", "opaquepred":
			eq := strings.Index(rest, "=")
			lp := strings.Index(rest, "(")
			if eq < 0 || lp < 0 || lp > eq {
				return fmt.Errorf("%s:%d: bad pred", path, it.n)
			}
			// find matching ) of the parameter list
			rp := strings.LastIndex(rest[:eq], ")")
			name := strings.TrimSpace(rest[:lp])
			var params []Param
			for _, ps := range splitTop(rest[lp+1:rp]) {
				ps = strings.TrimSpace(ps)
				if ps == "" {
					continue
				}
				f := strings.Fields(ps)
				if len(f) < 2 {
					return fmt.Errorf("%s:%d: pred parameter needs a type: %q", path, it.n, ps)
				}
				params = append(params, Param{f[0], strings.Join(f[1:], "")})
			}
			body, err := ParseExpr(rest[eq+1:])
			if err != nil {
				return fmt.Errorf("%s:%d: %v", path, it.n, err)
			}
			cs.Preds[name] = &Pred{Name: name, Params: params, Body: body, Src: rest, Opaque: kw == "opaquepred", Pkg: pkgPath}
		case "ufunc":
			lp := strings.Index(rest, "(")
			rp := strings.LastIndex(rest, ")")
			if lp < 0 || rp < lp {
				return fmt.Errorf("%s:%d: bad ufunc", path, it.n)
			}
			uf := &UFunc{Name: strings.TrimSpace(rest[:lp]), Result: strings.TrimSpace(rest[rp+1:])}
			for _, ps := range splitTop(rest[lp+1 : rp]) {
				ps = strings.TrimSpace(ps)
				if ps == "" {
					continue
				}
				f := strings.Fields(ps)
				if len(f) < 2 {
					return fmt.Errorf("%s:%d: ufunc parameter needs a type", path, it.n)
				}
				uf.Params = append(uf.Params, Param{f[0], strings.Join(f[1:], "")})
			}
			cs.UFuncs[uf.Name] = uf
		case "mapwriters":
			mw := MapWriters{Pkg: pkgPath, Src: rest, File: path, Line: it.n}
			r := strings.TrimSpace(rest)
			for strings.HasPrefix(r, "[") {
				k := strings.Index(r, "]")
				if k < 0 {
					return fmt.Errorf("%s:%d: mapwriters: unterminated tag", path, it.n)
				}
				mw.Tags = append(mw.Tags, r[1:k])
				r = strings.TrimSpace(r[k+1:])
			}
			fs := strings.Fields(r)
			if len(fs) < 3 || fs[1] != "only" || !strings.Contains(fs[0], ".") {
				return fmt.Errorf("%s:%d: mapwriters [tags] T.field only F G ...", path, it.n)
			}
			d := strings.LastIndex(fs[0], ".")
			mw.Type, mw.Field, mw.Allowed = fs[0][:d], fs[0][d+1:], fs[2:]
			cs.MapWriters = append(cs.MapWriters, mw)
		case "protect":
			// protect T.field read EXPR write EXPR
			ri := strings.Index(rest, " read ")
			wi := strings.Index(rest, " write ")
			if ri < 0 || wi < ri {
				return fmt.Errorf("%s:%d: protect T.field read EXPR write EXPR", path, it.n)
			}
			// Type.field, pkg.Type.field, Type.* (every field), Type.*!A!B (every field but A and B)
			spec := strings.TrimSpace(rest[:ri])
			ld := strings.LastIndex(spec, ".")
			if ld < 0 {
				return fmt.Errorf("%s:%d: protect needs Type.field", path, it.n)
			}
			tf := []string{spec[:ld], spec[ld+1:]}
			typePkg := ""
			if k := strings.Index(tf[0], "."); k >= 0 {
				typePkg, tf[0] = tf[0][:k], tf[0][k+1:]
			}
			rc, err := mk(rest[ri+6 : wi])
			if err != nil {
				return err
			}
			wc, err := mk(rest[wi+7:])
			if err != nil {
				return err
			}
			cs.Protects = append(cs.Protects, Protect{Type: tf[0], Field: tf[1], Read: &rc, Write: &wc, Pkg: pkgPath, TypePkg: typePkg})
		case "axiom", "lemma":
			c, err := mk(rest)
			if err != nil {
				return err
			}
			c.Pkg = pkgPath
			if kw == "lemma" {
				cs.Lemmas = append(cs.Lemmas, c)
			} else {
				cs.Axioms = append(cs.Axioms, c)
			}
		case "func":
			cur = &FuncContract{Name: rest, Pkg: pkgPath, File: path, Line: it.n, Loops: map[int]*LoopContract{}}
			key := pkgPath + "::" + rest
			if _, dup := cs.Funcs[key]; dup {
				return fmt.Errorf("%s:%d: duplicate contract for %s", path, it.n, rest)
			}
			cs.Funcs[key] = cur
			cs.Order = append(cs.Order, key)
		default:
			if cur == nil {
				return fmt.Errorf("%s:%d: clause outside func", path, it.n)
			}
			switch kw {
			case "requires", "ensures", "modifies", "decreases":
				c, err := mk(rest)
				if err != nil {
					return err
				}
				switch kw {
				case "requires":
					cur.Requires = append(cur.Requires, c)
				case "ensures":
					cur.Ensures = append(cur.Ensures, c)
				case "modifies":
					cur.Modifies = append(cur.Modifies, c)
				case "decreases":
					cur.Decreases = &c
				}
			case "trusted":
				cur.Trusted = true
			case "noframe":
				cur.NoFrame = true
			case "owned":
				cur.Owned = append(cur.Owned, fields[1:]...)
			case "stateless":
				// stateless [tags] except G1 G2
				sc := &StatelessClause{Except: map[string]bool{}}
				sc.Clause = Clause{File: path, Line: it.n, Src: "no package-level state is written"}
				r2 := strings.TrimSpace(rest)
				for strings.HasPrefix(r2, "[") {
					kk := strings.Index(r2, "]")
					sc.Tags = append(sc.Tags, strings.TrimSpace(r2[1:kk]))
					r2 = strings.TrimSpace(r2[kk+1:])
				}
				if strings.HasPrefix(r2, "except") {
					for _, g := range strings.Fields(r2[len("except"):]) {
						sc.Except[g] = true
					}
				}
				cur.Stateless = sc
			case "deterministic":
				// "deterministic" (order discipline under C10) or "deterministic C01 C10" (under the listed properties)
				cur.Deterministic = true
				if cur.DetProps == nil {
					cur.DetProps = map[string]bool{}
				}
				if len(fields) == 1 {
					cur.DetProps["C10"] = true
				}
				for _, f := range fields[1:] {
					cur.DetProps[f] = true
				}
			case "concurrent":
				cur.Concurrent = true
			case "bag":
				// bag result N | bag param NAME
				if len(fields) == 3 && fields[1] == "result" {
					n, err := strconv.Atoi(fields[2])
					if err != nil {
						return fmt.Errorf("%s:%d: bag result N", path, it.n)
					}
					cur.BagResults = append(cur.BagResults, n)
				} else if len(fields) == 3 && fields[1] == "param" {
					cur.BagParams = append(cur.BagParams, fields[2])
				} else {
					return fmt.Errorf("%s:%d: bag result N | bag param NAME", path, it.n)
				}
			case "protocol-only":
				cur.ProtocolOnly = append(cur.ProtocolOnly, strings.Fields(rest)...)
			case "uses":
				cur.Uses = append(cur.Uses, strings.Fields(rest)...)
			case "reveal":
				cur.Reveals = append(cur.Reveals, strings.Fields(rest)...)
			case "pure":
				cur.Pure = true
			case "safe":
				cur.Safe = true
			case "ghost":
				if len(fields) < 3 {
					return fmt.Errorf("%s:%d: ghost NAME TYPE", path, it.n)
				}
				cur.Ghosts = append(cur.Ghosts, Param{fields[1], strings.Join(fields[2:], "")})
			case "return-ensures":
				c, err := mk(rest)
				if err != nil {
					return err
				}
				cur.ReturnEnsures = append(cur.ReturnEnsures, c)
			case "mapupdate":
				ka := strings.Index(rest, " assert ")
				if ka < 0 {
					return fmt.Errorf("%s:%d: mapupdate FIELD assert expr", path, it.n)
				}
				c, err := mk(rest[ka+len(" assert "):])
				if err != nil {
					return err
				}
				cur.UpdateAsserts = append(cur.UpdateAsserts, CallAssert{Callee: strings.TrimSpace(rest[:ka]), Clause: c})
			case "call":
				// call NAME update G = expr
				if ka := strings.Index(rest, " assert "); ka >= 0 && !strings.Contains(rest[:ka], " update ") {
					c, err := mk(rest[ka+len(" assert "):])
					if err != nil {
						return err
					}
					callee := strings.TrimSpace(rest[:ka])
					reach := false
					if strings.HasSuffix(callee, " transitively") {
						callee, reach = strings.TrimSpace(strings.TrimSuffix(callee, " transitively")), true
					}
					cur.CallAsserts = append(cur.CallAsserts, CallAssert{Callee: callee, Clause: c, Reach: reach})
					continue
				}
				k := strings.Index(rest, " update ")
				if k < 0 {
					return fmt.Errorf("%s:%d: call NAME update G = expr", path, it.n)
				}
				callee := strings.TrimSpace(rest[:k])
				r2 := strings.TrimSpace(rest[k+len(" update "):])
				eq := strings.Index(r2, "=")
				if eq < 0 {
					return fmt.Errorf("%s:%d: bad call update", path, it.n)
				}
				x, err := ParseExpr(r2[eq+1:])
				if err != nil {
					return fmt.Errorf("%s:%d: %v", path, it.n, err)
				}
				cur.CallUpdates = append(cur.CallUpdates, CallUpdate{callee, GhostUpdate{strings.TrimSpace(r2[:eq]), x, r2}})
			case "init":
				eq := strings.Index(rest, "=")
				if eq < 0 {
					return fmt.Errorf("%s:%d: bad init", path, it.n)
				}
				x, err := ParseExpr(rest[eq+1:])
				if err != nil {
					return fmt.Errorf("%s:%d: %v", path, it.n, err)
				}
				cur.Inits = append(cur.Inits, GhostUpdate{strings.TrimSpace(rest[:eq]), x, rest})
			case "let":
				eq := strings.Index(rest, "=")
				if eq < 0 {
					return fmt.Errorf("%s:%d: bad let", path, it.n)
				}
				cur.Lets = append(cur.Lets, Param{strings.TrimSpace(rest[:eq]), strings.TrimSpace(rest[eq+1:])})
			case "loop":
				if len(fields) < 3 {
					return fmt.Errorf("%s:%d: bad loop clause", path, it.n)
				}
				n, err := strconv.Atoi(fields[1])
				if err != nil {
					return fmt.Errorf("%s:%d: loop ordinal: %v", path, it.n, err)
				}
				lc := cur.Loops[n]
				if lc == nil {
					lc = &LoopContract{}
					cur.Loops[n] = lc
				}
				sub := fields[2]
				if sub == "ordered" {
					c := Clause{File: path, Line: it.n, Src: "the loop iterates in a determined order (it does not range over a map)"}
					tagsrc := strings.TrimSpace(strings.SplitN(rest, "ordered", 2)[1])
					for strings.HasPrefix(tagsrc, "[") {
						kk := strings.Index(tagsrc, "]")
						c.Tags = append(c.Tags, strings.TrimSpace(tagsrc[1:kk]))
						tagsrc = strings.TrimSpace(tagsrc[kk+1:])
					}
					lc.Ordered = &c
					continue
				}
				if sub == "complete" {
					c := Clause{File: path, Line: it.n, Src: "complete"}
					tagsrc := strings.TrimSpace(strings.SplitN(rest, "complete", 2)[1])
					for strings.HasPrefix(tagsrc, "[") {
						kk := strings.Index(tagsrc, "]")
						c.Tags = append(c.Tags, strings.TrimSpace(tagsrc[1:kk]))
						tagsrc = strings.TrimSpace(tagsrc[kk+1:])
					}
					c.Src = "the loop runs to completion (no early exit)"
					lc.Complete = &c
					continue
				}
				k := strings.Index(rest, sub)
				if sub == "update" {
					r2 := strings.TrimSpace(rest[k+len(sub):])
					eq := strings.Index(r2, "=")
					if eq < 0 {
						return fmt.Errorf("%s:%d: bad update", path, it.n)
					}
					x, err := ParseExpr(r2[eq+1:])
					if err != nil {
						return fmt.Errorf("%s:%d: %v", path, it.n, err)
					}
					lc.Updates = append(lc.Updates, GhostUpdate{strings.TrimSpace(r2[:eq]), x, r2})
					continue
				}
				c, err := mk(rest[k+len(sub):])
				if err != nil {
					return err
				}
				switch sub {
				case "invariant":
					lc.Invariants = append(lc.Invariants, c)
				case "return-ensures":
					lc.ReturnEnsures = append(lc.ReturnEnsures, c)
				case "modifies":
					lc.Modifies = append(lc.Modifies, c)
				case "decreases":
					lc.Decreases = &c
				default:
					return fmt.Errorf("%s:%d: unknown loop clause %q", path, it.n, sub)
				}
			}
		}
	}
	return nil
}

func splitTop(s string) []string {
	var out []string
	depth := 0
	start := 0
	for i, c := range s {
		switch c {
		case '(', '[':
			depth++
		case ')', ']':
			depth--
		case ',':
			if depth == 0 {
				out = append(out, s[start:i])
				start = i + 1
			}
		}
	}
	out = append(out, s[start:])
	return out
}

func hasTagFor(tags []string, prop string) bool {
	for _, t := range tags {
		if t == prop || strings.HasPrefix(t, prop+".") {
			return true
		}
	}
	return false
}

// clauseActive: tagged clauses belong to the named properties.  Untagged (support) clauses belong to the properties
// the owning contract has tagged clauses for, or to every property when the contract has no tagged clause at all.
func clauseActive(c Clause, prop string) bool {
	if prop == "" {
		return true
	}
	if len(c.Tags) == 0 {
		if c.owner == nil || len(c.owner.props) == 0 {
			return true
		}
		return c.owner.props[prop]
	}
	return hasTagFor(c.Tags, prop)
}

// finalize records, for every clause, the contract it belongs to and the properties that contract is tagged for.
func (cs *ContractSet) finalize() {
	for _, fc := range cs.Funcs {
		fc.props = map[string]bool{}
		var all []*Clause
		add := func(list []Clause) {
			for i := range list {
				all = append(all, &list[i])
			}
		}
		add(fc.Requires)
		add(fc.Ensures)
		add(fc.Modifies)
		for i := range fc.CallAsserts {
			all = append(all, &fc.CallAsserts[i].Clause)
		}
		for i := range fc.UpdateAsserts {
			all = append(all, &fc.UpdateAsserts[i].Clause)
		}
		add(fc.ReturnEnsures)
		for _, l := range fc.Loops {
			add(l.Invariants)
			add(l.Modifies)
			add(l.ReturnEnsures)
			if l.Complete != nil {
				all = append(all, l.Complete)
			}
			if l.Ordered != nil {
				all = append(all, l.Ordered)
			}
			if l.Decreases != nil {
				all = append(all, l.Decreases)
			}
		}
		if fc.Decreases != nil {
			all = append(all, fc.Decreases)
		}
		if fc.Stateless != nil {
			all = append(all, &fc.Stateless.Clause)
		}
		for p := range fc.DetProps {
			fc.props[p] = true
		}
		for _, c := range all {
			c.owner = fc
			for _, t := range c.Tags {
				p := t
				if k := strings.Index(t, "."); k >= 0 {
					p = t[:k]
				}
				fc.props[p] = true
			}
		}
	}
}

// SplitConj splits a clause into conjuncts that can be proved separately:
// A && B, P ==> (A && B), forall x :: (A && B).
func SplitConj(x Expr) []Expr {
	switch n := x.(type) {
	case *EBinary:
		if n.Op == "&&" {
			return append(SplitConj(n.X), SplitConj(n.Y)...)
		}
		if n.Op == "==>" {
			var out []Expr
			for _, c := range SplitConj(n.Y) {
				out = append(out, &EBinary{"==>", n.X, c})
			}
			return out
		}
	case *EQuant:
		if n.Forall {
			var out []Expr
			for _, c := range SplitConj(n.Body) {
				out = append(out, &EQuant{Forall: true, Vars: n.Vars, Body: c})
			}
			return out
		}
	}
	return []Expr{x}
}
