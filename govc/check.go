package govc

import (
	"context"
	"encoding/json"
	"fmt"
	"os"
	"path/filepath"
	"regexp"
	"sort"
	"strings"
	"sync"
	"time"
)

type CheckOpts struct {
	Repo, Verif, Prop, Tier string
	Seed                    int
	Verbose                 bool
	Only                    string // restrict to one function (debugging)
	KeepSMT                 string // directory to keep SMT files in (debugging)
	TimeoutS                int
	Out                     string // where evidence/ and replays/ are written (default: Verif); used by the selftest
}

func (o CheckOpts) outDir() string {
	if o.Out != "" {
		return o.Out
	}
	return o.Verif
}

type OblResult struct {
	ID         string `json:"id"`
	Function   string `json:"function"`
	Kind       string `json:"kind"`
	Clause     string `json:"clause"`
	Tags       []string `json:"tags,omitempty"`
	Status     string `json:"status"`
	Backend    string `json:"backend"`
	Ms         int64  `json:"ms"`
	VCBytes    int    `json:"vc_bytes"`
	Class      string `json:"class"`
	Pos        string `json:"pos,omitempty"`
	ok         bool
	obl        *Obligation
	res        SolveResult
	model      []string
	replay     *ReplayOutcome
}

// propPackages finds the repo packages whose contract files mention the property.
func propPackages(repo, prop string) ([]string, error) {
	var pkgs []string
	err := filepath.Walk(repo, func(p string, info os.FileInfo, err error) error {
		if err != nil {
			return nil
		}
		if info.IsDir() && (info.Name() == ".git" || info.Name() == "testdata") {
			return filepath.SkipDir
		}
		if info.Name() != "contracts_verif.go" {
			return nil
		}
		data, err := os.ReadFile(p)
		if err != nil {
			return nil
		}
		if strings.Contains(string(data), "["+prop+".") || strings.Contains(string(data), "["+prop+"]") || (prop == "C10" && strings.Contains(string(data), "//@   deterministic\n")) || regexp.MustCompile(`//@   deterministic[^\n]* `+prop+`\b`).Match(data) {
			rel, _ := filepath.Rel(repo, filepath.Dir(p))
			pkgs = append(pkgs, "./"+rel)
		}
		return nil
	})
	sort.Strings(pkgs)
	return pkgs, err
}

func RunCheck(o CheckOpts) int {
	start := time.Now()
	scratch := os.Getenv("VERIF_SCRATCH")
	if scratch == "" {
		scratch = "/var/tmp"
	}
	dir := filepath.Join(scratch, fmt.Sprintf("verif.%d", os.Getpid()))
	if o.KeepSMT != "" {
		dir = o.KeepSMT
	}
	os.MkdirAll(dir, 0o755)
	if o.KeepSMT == "" {
		defer os.RemoveAll(dir)
	}
	pats, err := propPackages(o.Repo, o.Prop)
	if err != nil || len(pats) == 0 {
		fmt.Printf("govc: no contract file mentions property %s (err=%v)\n", o.Prop, err)
		return broken(o, "no contracts for property")
	}
	w, err := LoadWorld(o.Repo, pats, o.Verif)
	if err != nil {
		fmt.Println("govc: load failed:", err)
		return broken(o, "load failed: "+err.Error())
	}
	if len(w.LoadErrs) > 0 {
		fmt.Println("govc: package errors:", strings.Join(w.LoadErrs, "; "))
		return broken(o, "package errors")
	}
	// functions: those with a clause tagged for the property, plus the contract cone
	var work []string
	inWork := map[string]bool{}
	for _, key := range w.Contracts.Order {
		fc := w.Contracts.Funcs[key]
		if fc.Trusted || strings.HasPrefix(fc.Name, "interface ") {
			continue
		}
		if contractMentions(fc, o.Prop) {
			work = append(work, key)
			inWork[key] = true
		}
	}
	var encs []*FnEnc
	var all []*Obligation
	var bindFailures []*Obligation
	funcsUnder := []string{}
	assumed := map[string]bool{}
	abstracted := map[string][]string{}
	for len(work) > 0 {
		key := work[0]
		work = work[1:]
		fc := w.Contracts.Funcs[key]
		if o.Only != "" && fc.Name != o.Only {
			continue
		}
		fn := w.FuncByKey(key)
		if fn == nil {
			ob := &Obligation{Name: "bind.function", Func: key, Kind: "bind", Clause: "contract names a function that does not exist: " + key, Guard: "true", Goal: "false"}
			bindFailures = append(bindFailures, ob)
			continue
		}
		e := w.EncodeFunction(fn, fc, o.Prop)
		encs = append(encs, e)
		funcsUnder = append(funcsUnder, key)
		for _, er := range e.errs {
			fmt.Printf("govc: %s: %s\n", key, er)
		}
		all = append(all, e.obls...)
		for _, a := range e.assumed {
			assumed[a] = true
		}
		if len(e.abstracted) > 0 {
			abstracted[key] = e.abstracted
		}
		for ck := range e.calleeUsed {
			if c := w.Contracts.Funcs[ck]; c != nil && !c.Trusted && !inWork[ck] && !strings.HasPrefix(c.Name, "interface ") {
				if len(c.props) > 0 && !c.props[o.Prop] {
					// the callee's clauses belong to other properties: nothing of it is assumed beyond its frame, which
					// those properties' runs prove
					assumed["frame of "+c.Name+" (proved in the runs of "+strings.Join(sortedKeys(c.props), ",")+")"] = true
					continue
				}
				inWork[ck] = true
				work = append(work, ck)
			}
		}
	}
	// lemmas tagged for this property: proved standalone, without any program context
	if o.Only == "" {
		le := w.newLemmaEnc()
		for k, lm := range w.Contracts.Lemmas {
			if !hasTagFor(lm.Tags, o.Prop) {
				continue
			}
			env := &Env{e: le, st: State{}, old: State{}, vars: map[string]Val{}, guard: "true"}
			if sp, ok := w.SSAPkgs[lm.Pkg]; ok {
				env.pkg = sp.Pkg
			}
			t, err := env.EvalBool(lm.Expr)
			ob := &Obligation{Name: fmt.Sprintf("lemma%d", k+1), Func: "lemmas", Kind: "lemma", Clause: lm.Src, Tags: lm.Tags, Guard: "true", Goal: t, enc: le}
			if err != nil {
				ob.Kind, ob.Clause, ob.Goal = "bind", err.Error()+" in "+lm.Src, "false"
			}
			ob.Cut = len(le.script)
			all = append(all, ob)
		}
	}
	if o.Verbose {
		tot := 0
		for _, ob := range all {
			tot += len(ob.enc.script)
		}
		fmt.Printf("govc: encoded %d functions, %d obligations in %.1fs\n", len(encs), len(all), time.Since(start).Seconds())
	}
	timeout := 20 * time.Second
	if o.Tier == "thorough" {
		timeout = 60 * time.Second
	}
	if o.TimeoutS > 0 {
		timeout = time.Duration(o.TimeoutS) * time.Second
	}
	kfEarly := LoadKnownFindings(filepath.Join(o.Verif, "known_findings.json"))
	results := make([]*OblResult, len(all))
	var wg sync.WaitGroup
	sem := make(chan struct{}, 6)
	for i, ob := range all {
		wg.Add(1)
		go func(i int, ob *Obligation) {
			defer wg.Done()
			sem <- struct{}{}
			defer func() { <-sem }()
			id := fmt.Sprintf("%s/%s", shortFunc(ob.Func), ob.Name)
			q := ob.Query(w)
			r := &OblResult{ID: id, Function: shortFunc(ob.Func), Kind: ob.Kind, Clause: ob.Clause, Tags: ob.Tags, VCBytes: len(q), Pos: ob.Pos, obl: ob, Class: "exact"}
			if ob.Abstracted {
				r.Class = "abstracted"
			}
			if ob.Kind == "bind" {
				r.Status = "bind-failure"
				results[i] = r
				return
			}
			if ob.Kind == "determinism" && ob.Goal == "false" && ob.Guard != "false" {
				// a statically detected order dependence: reported without asking the solvers to refute reachability
				r.Status = "order-dependent"
				results[i] = r
				return
			}
			if len(q) > 4<<20 {
				r.Status = "too-large"
				results[i] = r
				return
			}
			to := timeout
			if ob.Kind == "cover" {
				to = 1 * time.Second
			}
			if f := kfEarly.Match(o.Prop, id); f != nil && f.Status == "open" {
				to = 5 * time.Second // a recorded open finding: expected to stay undischarged
			}
			res := Solve(dir, fmt.Sprintf("%d_%s", i, id), q, to, false)
			r.Status, r.Backend, r.Ms, r.res = res.Status, res.Backend, res.Ms, res
			if ob.Kind == "cover" {
				r.ok = res.Status != "unsat"
				if res.Status != "sat" && res.Status != "unsat" {
					// quantifiers usually keep the solvers from answering "sat"; the ground part alone (every asserted
					// formula that contains a quantifier dropped - a weakening) still exposes a contradiction between
					// the ground facts: unsat there is unsat of the whole
					var g strings.Builder
					for _, l := range strings.Split(q, "\n") {
						if strings.HasPrefix(l, "(assert") && (strings.Contains(l, "(forall ") || strings.Contains(l, "(exists ")) {
							continue
						}
						g.WriteString(l)
						g.WriteByte('\n')
					}
					res2 := Solve(dir, fmt.Sprintf("%d_%s_ground", i, id), g.String(), 3*time.Second, false)
					if res2.Status == "unsat" {
						r.Status, r.Backend, r.Ms, r.res = "unsat", res2.Backend+"/ground", res.Ms+res2.Ms, res2
						r.ok = false
					} else if res2.Status == "sat" {
						r.Status = "sat-ground"
					}
				}
			} else {
				r.ok = res.Status == "unsat"
			}
			results[i] = r
		}(i, ob)
	}
	wg.Wait()
	// Second chance for undecided obligations: a timeout or "unknown" under load is not a refutation. They are
	// retried two at a time (the machine is otherwise idle then) with three times the budget; total retry time capped.
	{
		var again []int
		for i, r := range results {
			if r != nil && r.Kind != "cover" && !r.ok && (r.Status == "unknown" || r.Status == "timeout" || r.Status == "error") {
				if f := kfEarly.Match(o.Prop, r.ID); f != nil && f.Status == "open" {
					continue
				}
				again = append(again, i)
			}
		}
		deadline := time.Now().Add(8 * time.Minute)
		sem2 := make(chan struct{}, 2)
		var wg2 sync.WaitGroup
		for _, i := range again {
			if time.Now().After(deadline) {
				break
			}
			wg2.Add(1)
			sem2 <- struct{}{}
			go func(i int) {
				defer wg2.Done()
				defer func() { <-sem2 }()
				r := results[i]
				if len(r.obl.Alts) > 0 {
					// the obligation split by the path that reaches the latch: every case proved proves the whole
					all, ms := true, int64(0)
					for k, a := range r.obl.Alts {
						ra := Solve(dir, fmt.Sprintf("%d_%s_case%d", i, r.ID, k), a.Query(w), timeout, false)
						ms += ra.Ms
						if ra.Status != "unsat" {
							all = false
							break
						}
					}
					r.Ms += ms
					if all {
						r.Status, r.Backend, r.ok = "unsat", "case-split", true
						return
					}
				}
				res := Solve(dir, fmt.Sprintf("%d_%s_retry", i, r.ID), r.obl.Query(w), 3*timeout, false)
				if res.Status == "unsat" {
					r.Status, r.Backend, r.Ms, r.res, r.ok = res.Status, res.Backend+"/retry", r.Ms+res.Ms, res, true
				} else if res.Status == "sat" {
					r.Status, r.Backend, r.Ms, r.res = res.Status, res.Backend+"/retry", r.Ms+res.Ms, res
				} else {
					r.Ms += res.Ms
				}
			}(i)
		}
		wg2.Wait()
	}
	for _, ob := range bindFailures {
		results = append(results, &OblResult{ID: ob.Func + "/" + ob.Name, Function: ob.Func, Kind: "bind", Clause: ob.Clause, Status: "bind-failure", obl: ob, Class: "exact"})
	}
	// mapwriters clauses: a scan of every function of the declaring package (under contract or not)
	if o.Only == "" {
		for _, mw := range w.Contracts.MapWriters {
			if !hasTagFor(mw.Tags, o.Prop) {
				continue
			}
			clause := "entries of " + mw.Type + "." + mw.Field + " are stored or deleted only by " + strings.Join(mw.Allowed, ", ")
			writers, found := w.mapFieldWriters(mw)
			if !found {
				ob := &Obligation{Name: "bind.mapwriters." + mw.Type + "." + mw.Field, Func: mw.Pkg, Kind: "bind", Clause: "mapwriters names a type or map field that does not exist: " + mw.Src, Guard: "true", Goal: "false"}
				results = append(results, &OblResult{ID: shortFunc(mw.Pkg) + "/" + ob.Name, Function: shortFunc(mw.Pkg), Kind: "bind", Clause: ob.Clause, Tags: mw.Tags, Status: "bind-failure", obl: ob, Class: "exact"})
				continue
			}
			ok := &Obligation{Name: "mapwriters." + mw.Type + "." + mw.Field + ".checked", Func: mw.Pkg, Kind: "protocol", Clause: clause, Guard: "true", Goal: "true"}
			results = append(results, &OblResult{ID: shortFunc(mw.Pkg) + "/" + ok.Name, Function: shortFunc(mw.Pkg), Kind: "protocol", Clause: clause, Tags: mw.Tags, Status: "unsat", Backend: "scan", ok: true, obl: ok, Class: "exact"})
			for _, wr := range writers {
				allowed := false
				for _, a := range mw.Allowed {
					allowed = allowed || a == wr.fn
				}
				if allowed {
					continue
				}
				ob := &Obligation{Name: "mapwriters." + mw.Type + "." + mw.Field + "@" + wr.pos, Func: wr.full, Kind: "protocol", Clause: clause + " - written in " + wr.fn, Guard: "true", Goal: "false", Pos: wr.pos}
				results = append(results, &OblResult{ID: shortFunc(wr.full) + "/" + ob.Name, Function: shortFunc(wr.full), Kind: "protocol", Clause: ob.Clause, Tags: mw.Tags, Status: "protocol-violation", Pos: wr.pos, obl: ob, Class: "exact"})
			}
		}
	}
	// report
	kf := LoadKnownFindings(filepath.Join(o.Verif, "known_findings.json"))
	reproduced := map[string]*ReplayOutcome{}
	replayTries := map[string]int{}
	var nObl, nDis, nCover, nViol int
	var solverMs int64
	var violations []string
	var samples []interface{}
	var oblList []*OblResult
	var deadPaths []string
	deadByFunc, liveReturns, returnsByFunc := map[string]int{}, map[string]int{}, map[string]int{}
	var deadLoops []*OblResult
	ackDead := map[string]bool{}
	if data, err := os.ReadFile(filepath.Join(o.Verif, "lib", "unreachable_ok.txt")); err == nil {
		for _, l := range strings.Split(string(data), "\n") {
			if k := strings.Index(l, "#"); k >= 0 {
				l = l[:k]
			}
			if l = strings.TrimSpace(l); l != "" {
				ackDead[l] = true
			}
		}
	}
	for _, r := range results {
		solverMs += r.Ms
		oblList = append(oblList, r)
		if r.Kind == "cover" {
			nCover++
			if !r.ok {
				if r.obl.Name == "cover.requires" {
					fmt.Printf("govc: VACUOUS %s (preconditions unsatisfiable)\n", r.ID)
					return broken(o, "vacuous contract: "+r.ID)
				}
				// an unreachable return or loop body (defensive code that the assumptions rule out): reported, and fatal
				// only if no return of the function is reachable
				deadPaths = append(deadPaths, r.ID)
				deadByFunc[r.Function]++
				// a loop body that cannot complete an iteration under the loop's own invariants means the invariants
				// (or the facts the generator adds) contradict the code: every obligation behind it holds vacuously.
				// That is reported as a violation of the contract unless the path is acknowledged as dead code.
				if strings.Contains(r.obl.Name, ".backedge") && !ackDead[r.Function+"/"+stripPos(r.obl.Name)] {
					deadLoops = append(deadLoops, r)
				}
			} else if strings.HasPrefix(r.obl.Name, "cover.return") {
				liveReturns[r.Function]++
			}
			if strings.HasPrefix(r.obl.Name, "cover.return") {
				returnsByFunc[r.Function]++
			}
			continue
		}
		nObl++
		if r.ok {
			nDis++
			if len(samples) < 4 && len(r.Tags) > 0 {
				samples = append(samples, map[string]interface{}{"obligation": r.ID, "clause": r.Clause, "backend": r.Backend, "ms": r.Ms})
			}
			continue
		}
		if f := kf.Match(o.Prop, r.ID); f != nil && f.Status == "open" {
			fmt.Printf("KNOWN-FINDING: property=%s %s (%s)\n", o.Prop, f.What, r.ID)
			nObl--
			continue
		}
		nViol++
		if r.Status == "sat" || r.Status == "unknown" {
			r.model = modelOf(dir, w, r)
		}
		// replay the counterexample against the real code (at most three attempts per function; a function whose
		// failing input has been found is not replayed again)
		if r.Status == "sat" || r.Status == "unknown" || r.Status == "timeout" {
			if prev, ok := reproduced[r.Function]; ok {
				r.replay = prev
			} else if replayTries[r.Function] < 3 && os.Getenv("GOVC_NOREPLAY") == "" {
				replayTries[r.Function]++
				oc := Replay(o, w, r, dir)
				r.replay = &oc
				if oc.Reproduced {
					reproduced[r.Function] = &oc
				}
			}
		}
		path := writeReplay(o, w, r)
		suffix := " no-failing-input-found"
		if r.replay != nil && r.replay.Reproduced {
			suffix = ""
			fmt.Printf("REPLAYED property=%s obligation=%s input=[%s] violates: %s (test: %s)\n", o.Prop, r.ID, r.replay.Input, r.replay.Failed, r.replay.TestFile)
		}
		violations = append(violations, fmt.Sprintf("VIOLATION property=%s replay=%s%s", o.Prop, path, suffix))
		if o.Verbose {
			fmt.Printf("  FAILED %s [%s] %s :: %s\n", r.ID, r.Status, r.Kind, r.Clause)
			if r.Status == "error" {
				fmt.Println("      " + firstLines(r.res.Output, 4))
			}
			if os.Getenv("GOVC_MODEL") != "" {
				for _, l := range r.model {
					fmt.Println("      " + l)
				}
			}
		}
	}
	for _, r := range deadLoops {
		nViol++
		r.Status = "unreachable"
		r.Clause = "the loop body can complete an iteration under the loop's invariants (otherwise they contradict the code and everything behind them holds vacuously)"
		path := writeReplay(o, w, r)
		violations = append(violations, fmt.Sprintf("VIOLATION property=%s replay=%s no-failing-input-found", o.Prop, path))
		if o.Verbose {
			fmt.Printf("  FAILED %s [unreachable] cover :: %s\n", r.ID, r.Clause)
		}
	}
	for f, n := range returnsByFunc {
		if n > 0 && liveReturns[f] == 0 {
			fmt.Printf("govc: VACUOUS %s: no return is reachable under the contract's assumptions\n", f)
			return broken(o, "vacuous contract: "+f)
		}
	}
	if o.Verbose {
		for _, r := range results {
			fmt.Printf("  %-9s %6dms %-10s %s\n", r.Status, r.Ms, r.Backend, r.ID)
		}
	}
	var assumptions []string
	for a := range assumed {
		assumptions = append(assumptions, a)
	}
	sort.Strings(assumptions)
	assumptions = append([]string{
		"A1 go/ssa (x/tools v0.41.0) translates the source faithfully; VCs are generated from that SSA on every run",
		"A2 signed machine integers treated as mathematical integers",
		"A3 floats are extended reals: NaN/Inf exact, rounding and signed zero ignored",
		"A9 partial correctness: paths ending in a panic satisfy the postcondition",
	}, assumptions...)
	for k, v := range abstracted {
		assumptions = append(assumptions, fmt.Sprintf("abstracted in %s: %s", k, strings.Join(v, "; ")))
	}
	ev := map[string]interface{}{
		"property_id": o.Prop,
		"tier":        o.Tier,
		"seed":        o.Seed,
		"level":       "proof",
		"coverage": map[string]interface{}{
			"obligations":              nObl,
			"discharged":               nDis,
			"checker_cmd":              fmt.Sprintf("bin/govc check -property %s -tier %s -repo %s", o.Prop, o.Tier, o.Repo),
			"trusted_base":             []string{"govc VC generator (/verif/govc)", "go/ssa + go/types (x/tools v0.41.0)", "z3 5.1.0 / z3 4.8.12 / cvc5 1.0.3 (first definitive answer)", "trusted library contracts and exact library models listed under assumptions"},
			"functions_under_contract": funcsUnder,
			"vacuity_covers_checked":   nCover,
			"unreachable_under_assumptions": deadPaths,
			"solver_time_s":            float64(solverMs) / 1000,
			"obligation_list":          oblList,
			"samples":                  samples,
		},
		"assumptions": assumptions,
		"wall_s":      time.Since(start).Seconds(),
		"violations":  nViol,
	}
	os.MkdirAll(filepath.Join(o.outDir(), "evidence"), 0o755)
	data, _ := json.MarshalIndent(ev, "", " ")
	os.WriteFile(filepath.Join(o.outDir(), "evidence", o.Prop+".json"), data, 0o644)
	for _, r := range results {
		if r.Kind != "cover" && r.ok && r.Ms > 4000 {
			fmt.Printf("govc: slow obligation (%d ms, %s): %s\n", r.Ms, r.Backend, r.ID)
		}
	}
	fmt.Printf("govc: property %s: %d functions under contract, %d/%d obligations discharged, %d covers, %.1fs\n", o.Prop, len(funcsUnder), nDis, nObl, nCover, time.Since(start).Seconds())
	if nObl == 0 && nViol == 0 {
		fmt.Println("govc: no obligations generated")
		return broken(o, "no obligations")
	}
	for _, v := range violations {
		fmt.Println(v)
	}
	if nViol > 0 {
		return 1
	}
	return 0
}

func broken(o CheckOpts, why string) int {
	fmt.Printf("govc: check for %s is broken: %s\n", o.Prop, why)
	return 2
}

func contractMentions(fc *FuncContract, prop string) bool {
	if fc.Deterministic && fc.DetProps[prop] {
		return true
	}
	cs := append(append([]Clause{}, fc.Requires...), fc.Ensures...)
	for _, l := range fc.Loops {
		cs = append(cs, l.Invariants...)
		cs = append(cs, l.ReturnEnsures...)
		if l.Complete != nil {
			cs = append(cs, *l.Complete)
		}
		if l.Ordered != nil {
			cs = append(cs, *l.Ordered)
		}
		if l.Decreases != nil {
			cs = append(cs, *l.Decreases)
		}
	}
	if fc.Decreases != nil {
		cs = append(cs, *fc.Decreases)
	}
	if fc.Stateless != nil {
		cs = append(cs, fc.Stateless.Clause)
	}
	for _, a := range fc.CallAsserts {
		cs = append(cs, a.Clause)
	}
	for _, a := range fc.UpdateAsserts {
		cs = append(cs, a.Clause)
	}
	cs = append(cs, fc.ReturnEnsures...)
	for _, c := range cs {
		if hasTagFor(c.Tags, prop) {
			return true
		}
	}
	return false
}

func shortFunc(f string) string {
	return strings.ReplaceAll(f, ModulePath+"/", "")
}

func writeReplay(o CheckOpts, w *World, r *OblResult) string {
	dir := filepath.Join(o.outDir(), "replays", o.Prop)
	os.MkdirAll(dir, 0o755)
	path := filepath.Join(dir, mangle(r.ID)+".json")
	rep := map[string]interface{}{
		"property":   o.Prop,
		"obligation": r.ID,
		"function":   r.Function,
		"kind":       r.Kind,
		"clause":     r.Clause,
		"tags":       r.Tags,
		"position":   r.Pos,
		"class":      r.Class,
		"status":     r.Status,
		"backend":    r.Backend,
		"solver_output": r.res.Output,
		"model":      r.model,
		"replayed":   r.replay != nil && r.replay.Reproduced,
		"replay":     r.replay,
	}
	data, _ := json.MarshalIndent(rep, "", " ")
	os.WriteFile(path, data, 0o644)
	return path
}

// ---------------------------------------------------------------- known findings

type KnownFinding struct {
	Property   string `json:"property"`
	Obligation string `json:"obligation"`
	What       string `json:"what"`
	Status     string `json:"status"`
	Commit     string `json:"commit,omitempty"`
	Witness    string `json:"witness,omitempty"`
}

type KnownFindings struct{ List []KnownFinding }

func LoadKnownFindings(path string) *KnownFindings {
	k := &KnownFindings{}
	data, err := os.ReadFile(path)
	if err != nil {
		return k
	}
	var raw struct {
		Findings []KnownFinding `json:"findings"`
	}
	if json.Unmarshal(data, &raw) == nil {
		k.List = raw.Findings
	}
	return k
}

func (k *KnownFindings) Match(prop, oblID string) *KnownFinding {
	for i := range k.List {
		f := &k.List[i]
		if f.Property == prop && (f.Obligation == oblID || f.Obligation == stripPos(oblID)) {
			return f
		}
	}
	return nil
}

// modelOf asks a solver for the values of the named program values in a failed obligation.
func modelOf(dir string, w *World, r *OblResult) []string {
	ob := r.obl
	if ob.enc == nil {
		return nil
	}
	var names []string
	for _, l := range ob.enc.script[:ob.Cut] {
		if strings.HasPrefix(l, "(declare-fun ") || strings.HasPrefix(l, "(define-fun ") {
			f := strings.Fields(l)
			n := f[1]
			if strings.HasPrefix(n, "p.") || strings.HasPrefix(n, "v.") || strings.HasPrefix(n, "fv.") || strings.HasPrefix(n, "ret.") || strings.HasPrefix(n, "next.") || strings.HasPrefix(n, "GH.") || strings.HasPrefix(n, "ghost.") {
				if strings.Contains(l, "(Array") {
					continue
				}
				names = append(names, n)
			}
		}
	}
	if len(names) == 0 {
		return nil
	}
	q := ob.Query(w) + "(get-value (" + strings.Join(names, " ") + "))\n"
	file := filepath.Join(dir, "model_"+mangle(r.ID)+".smt2")
	os.WriteFile(file, []byte("(set-option :produce-models true)\n"+q), 0o644)
	res := runSolver(context.Background(), Solvers[0], file, 10*time.Second)
	if res.Status != "sat" && res.Status != "unknown" {
		os.WriteFile(file, []byte("(set-option :produce-models true)\n(set-logic ALL)\n"+q), 0o644)
		for _, sv := range Solvers {
			if sv.NeedsLogic {
				res = runSolver(context.Background(), sv, file, 10*time.Second)
			}
		}
	}
	var out []string
	for _, l := range strings.Split(res.Output, "\n")[1:] {
		l = strings.TrimSpace(l)
		if l != "" {
			out = append(out, l)
		}
	}
	if len(out) > 200 {
		out = out[:200]
	}
	return out
}

// stripPos removes the "@line:col" / "@bN" position and conjunct suffix from an obligation id, so that known findings
// are identified by function and clause rather than by source position.
func stripPos(id string) string {
	if k := strings.LastIndex(id, "@"); k >= 0 {
		return id[:k]
	}
	return id
}
