package diff

import (
	"testing"
	"github.com/BlackVectorOps/semantic_firewall/v3/pkg/analysis/ir"
)

func fpOf(t *testing.T, src, fn string) string {
	rs, err := FingerprintSource(t.TempDir()+"/a.go", src, ir.DefaultLiteralPolicy)
	if err != nil { t.Fatal(err) }
	for _, r := range rs { if r.FunctionName == "command-line-arguments."+fn { return r.Fingerprint } }
	t.Fatalf("no %s", fn); return ""
}

func TestZZWitnessFuncRef(t *testing.T) {
	a := fpOf(t, "package p\nimport \"encoding/json\"\nfunc F(x []int) ([]byte, error) { return json.Marshal(x) }\n", "F")
	b := fpOf(t, "package p\nimport \"encoding/xml\"\nfunc F(x []int) ([]byte, error) { return xml.Marshal(x) }\n", "F")
	t.Logf("json vs xml equal=%v", a == b)
	r1 := fpOf(t, "package p\nfunc R(n int) int { if n <= 0 { return 0 }; return R(n-1) }\n", "R")
	r2 := fpOf(t, "package p\nfunc R2(n int) int { if n <= 0 { return 0 }; return R2(n-1) }\n", "R2")
	t.Logf("recursive rename equal=%v", r1 == r2)
	c1 := fpOf(t, "package p\nfunc F(k int) func() int { return func() int { return k } }\n", "F")
	c2 := fpOf(t, "package p\nfunc G(k int) func() int { return func() int { return k } }\n", "G")
	t.Logf("closure-holder rename equal=%v", c1 == c2)
}
