package loop_test

import (
	"testing"

	"github.com/BlackVectorOps/semantic_firewall/v3/pkg/analysis/loop"
	"github.com/BlackVectorOps/semantic_firewall/v3/pkg/testutil"
)

func TestZZWitnessTripPolarity(t *testing.T) {
	cases := []struct{ name, src string; real int64 }{
		{"exit-test >=", "package main\nfunc count() int { s := 0; i := 0; for { if i >= 10 { break }; s += i; i++ }; return s }", 10},
		{"exit-test >", "package main\nfunc count() int { s := 0; i := 0; for { if i > 10 { break }; s += i; i++ }; return s }", 11},
		{"exit-test == (down)", "package main\nfunc count() int { s := 0; i := 5; for { if i == 0 { break }; s += i; i-- }; return s }", 5},
		{"exit-test < (down)", "package main\nfunc count() int { s := 0; i := 9; for { if i < 0 { break }; s += i; i-- }; return s }", 10},
	}
	for _, c := range cases {
		fn := testutil.CompileAndGetFunction(t, c.src, "count")
		info := loop.DetectLoops(fn)
		loop.AnalyzeSCEV(info)
		if len(info.Loops) == 0 { t.Logf("%s: no loops", c.name); continue }
		l := info.Loops[0]
		if l.TripCount == nil { t.Logf("%s: TripCount nil (unknown) real=%d", c.name, c.real); continue }
		v := l.TripCount.EvaluateAt(nil, nil)
		t.Logf("%s: TripCount=%v (%s) real body executions=%d", c.name, v, l.TripCount.String(), c.real)
	}
}
